//! Kernel / descriptor model behind the overridden libc functions.
//! Every function behaves within its man-page contract; choices the contract
//! leaves open are made by the harness through the fields of `K`.
use crate::*;

pub const NSIG: usize = 65; // signals 1..=64
pub const NFD: usize = 8;

pub const ACT_TERM: u8 = 0;
pub const ACT_IGN: u8 = 1;
pub const ACT_STOP: u8 = 2;
pub const ACT_CONT: u8 = 3;

// Default dispositions of Linux (signal(7)); C16 regenerates this table from the
// live kernel before it is used as an oracle (see check: `probe-kernel`).
include!(concat!(env!("CARGO_MANIFEST_DIR"), "/src/default_actions.in"));

#[derive(Copy, Clone, PartialEq, Eq)]
pub enum Outcome {
    Running,
    Exited { status: c_int, hooks_run: bool },
    Killed { sig: c_int },
    Aborted,
    /// only the calling thread ended (raw SYS_exit): the process goes on
    ThreadExited { status: c_int },
    UnmodelledSyscall,
}

#[derive(Copy, Clone, PartialEq, Eq)]
pub enum FdKind {
    Invalid,
    Pipe,
    Stream,
    Dgram,
    Regular,
}

#[derive(Copy, Clone)]
pub struct Fd {
    pub kind: FdKind,
    pub nonblock: bool,
    pub cloexec_flag_set: bool,
    pub fill: u32,     // bytes readable (stream/pipe) / total payload bytes (dgram)
    pub msgs: u32,     // datagrams queued (dgram), incl. zero-length ones
    pub cap: u32,      // capacity in bytes (stream/pipe) / messages (dgram)
    pub closes: u32,   // close() calls on this number
    pub write_calls: u32, // send()/write() calls with len > 0
    pub zero_sends: u32,  // zero-length send() calls
    pub writes_after_close: u32,
    pub bad_len_writes: u32, // calls with len other than 0 or 1
    pub may_block: u32,   // calls that could have blocked (no MSG_DONTWAIT, no O_NONBLOCK)
    pub blocking_reads: u32,
}

/// In LR mode the fill level of one designated descriptor slot lives in a
/// round-versioned shim word (set up with `share_fill`).
pub static mut LR_FILL_FD: usize = usize::MAX;
pub static mut LR_FILL_VAR: usize = usize::MAX;
pub fn share_fill(slot: usize) {
    unsafe {
        LR_FILL_FD = slot;
        LR_FILL_VAR = vshim::lr_new(K::fds[slot].fill as u64);
    }
}
pub fn fget(slot: usize) -> u32 {
    unsafe {
        if vshim::is_lr() && slot == LR_FILL_FD {
            vshim::lr_rd(LR_FILL_VAR) as u32
        } else {
            K::fds[slot].fill
        }
    }
}
pub fn fset(slot: usize, v: u32) {
    unsafe {
        if vshim::is_lr() && slot == LR_FILL_FD {
            vshim::lr_wr(LR_FILL_VAR, v as u64)
        } else {
            K::fds[slot].fill = v
        }
    }
}

/// In LR mode the handler word of one designated signal's disposition is a
/// round-versioned shim word (two threads: one registers, one receives).
pub static mut LR_DISP_SIG: usize = usize::MAX;
pub static mut LR_DISP_VAR: usize = usize::MAX;
pub fn share_disp(sig: c_int) {
    unsafe {
        LR_DISP_SIG = sig as usize;
        LR_DISP_VAR = vshim::lr_new(K::disp[sig as usize].handler as u64);
    }
}
pub fn handler_of(sig: usize) -> usize {
    unsafe {
        if vshim::is_lr() && sig == LR_DISP_SIG {
            vshim::lr_rd(LR_DISP_VAR) as usize
        } else {
            K::disp[sig].handler
        }
    }
}
fn set_handler(sig: usize, h: usize) {
    unsafe {
        if vshim::is_lr() && sig == LR_DISP_SIG {
            vshim::lr_wr(LR_DISP_VAR, h as u64)
        } else {
            K::disp[sig].handler = h
        }
    }
}

pub const FD0: Fd = Fd {
    kind: FdKind::Invalid,
    nonblock: false,
    cloexec_flag_set: false,
    fill: 0,
    msgs: 0,
    cap: 0,
    closes: 0,
    write_calls: 0,
    zero_sends: 0,
    writes_after_close: 0,
    bad_len_writes: 0,
    may_block: 0,
    blocking_reads: 0,
};

#[derive(Copy, Clone)]
pub struct Disp {
    pub handler: usize,
    pub flags: c_int,
}

#[allow(non_snake_case)]
pub mod K {
    use super::*;
    pub static mut errno: c_int = 0;
    pub static mut disp: [Disp; NSIG] = [Disp {
        handler: 0,
        flags: 0,
    }; NSIG];
    pub static mut installs: [u32; NSIG] = [0; NSIG]; // successful sigaction(sig, non-null) calls
    pub static mut sigaction_calls: u32 = 0; // all sigaction calls
    pub static mut sigaction_sets: u32 = 0; // calls with a non-null `act` (attempted changes)
    pub static mut extra_reject: c_int = 0; // one more signal number the kernel refuses (0 = none)
    pub static mut blocked: u64 = 0;
    pub static mut pending: u64 = 0;
    pub static mut stops: u32 = 0; // times the process was stopped
    pub static mut outcome: Outcome = Outcome::Running;
    pub static mut fds: [Fd; NFD] = [FD0; NFD];
    pub static mut fcntl_fail: bool = false; // harness choice: fcntl may fail
}

pub fn set_errno(e: c_int) {
    unsafe {
        K::errno = e;
        #[cfg(not(kani))]
        {
            *real_libc::__errno_location() = e;
        }
    }
}

pub fn die(o: Outcome) -> ! {
    unsafe {
        if K::outcome == Outcome::Running {
            K::outcome = o;
        }
        (vshim::HOOKS.terminated)();
        vshim::assume(false);
    }
    loop {}
}

pub fn kernel_rejects(sig: c_int, changing: bool) -> bool {
    unsafe {
        if sig < 1 || sig > 64 {
            return true;
        }
        // glibc keeps 32 and 33 for its threading implementation
        if sig == 32 || sig == 33 {
            return true;
        }
        if changing && (sig == SIGKILL || sig == SIGSTOP) {
            return true;
        }
        if K::extra_reject != 0 && sig == K::extra_reject {
            return true;
        }
        false
    }
}

pub unsafe fn sys_sigaction(sig: c_int, act: *const sigaction, old: *mut sigaction) -> c_int {
    vshim::sys_point();
    K::sigaction_calls += 1;
    if !act.is_null() {
        K::sigaction_sets += 1;
        (vshim::HOOKS.state_change)(vshim::CH_SIGACTION);
    }
    if kernel_rejects(sig, !act.is_null()) {
        set_errno(EINVAL);
        return -1;
    }
    let s = sig as usize;
    if !old.is_null() {
        let mut o: sigaction = core::mem::zeroed();
        o.sa_sigaction = handler_of(s);
        o.sa_flags = K::disp[s].flags;
        *old = o;
    }
    if !act.is_null() {
        set_handler(s, (*act).sa_sigaction);
        K::disp[s].flags = (*act).sa_flags;
        K::installs[s] += 1;
    }
    0
}

pub unsafe fn sys_sigprocmask(how: c_int, set: *const sigset_t, old: *mut sigset_t) -> c_int {
    if !old.is_null() {
        *(old as *mut u64) = K::blocked;
    }
    if !set.is_null() {
        let m = *(set as *const u64);
        if how == SIG_BLOCK {
            K::blocked |= m;
        } else if how == SIG_UNBLOCK {
            K::blocked &= !m;
        } else if how == SIG_SETMASK {
            K::blocked = m;
        } else {
            set_errno(EINVAL);
            return -1;
        }
        // KILL and STOP cannot be blocked
        K::blocked &= !((1u64 << (SIGKILL - 1)) | (1u64 << (SIGSTOP - 1)));
        flush_pending();
    }
    0
}

unsafe fn flush_pending() {
    // deliver what became unblocked (harnesses have at most two signals pending)
    let mut rounds = 0;
    while rounds < 2 {
        let m = K::pending & !K::blocked;
        if m != 0 {
            let s = m.trailing_zeros() as c_int + 1;
            K::pending &= !(1u64 << (s - 1));
            act_on(s);
        }
        rounds += 1;
    }
}

/// What the kernel does with an unblocked signal `s` (1..=64).
unsafe fn act_on(s: c_int) {
    let mut d = K::disp[s as usize];
    d.handler = handler_of(s as usize);
    if d.handler == SIG_IGN && s != SIGKILL && s != SIGSTOP {
        return;
    }
    if d.handler == SIG_DFL || s == SIGKILL || s == SIGSTOP {
        match DEFAULT_ACTION[s as usize] {
            ACT_IGN | ACT_CONT => {}
            ACT_STOP => K::stops += 1,
            _ => die(Outcome::Killed { sig: s }),
        }
        return;
    }
    (vshim::HOOKS.deliver)(s);
}

pub unsafe fn sys_raise(sig: c_int) -> c_int {
    vshim::sys_point();
    if sig == 0 {
        return 0;
    }
    if sig < 1 || sig > 64 {
        set_errno(EINVAL);
        return -1;
    }
    let bit = 1u64 << (sig - 1);
    if K::blocked & bit != 0 {
        K::pending |= bit;
        return 0;
    }
    act_on(sig);
    0
}

fn fd_ok(fd: c_int) -> bool {
    fd >= 0 && (fd as usize) < NFD
}

/// send()/write(): `flags` is Some for send, None for write.
pub unsafe fn sys_write(fd: c_int, _buf: *const c_void, len: size_t, flags: Option<c_int>) -> ssize_t {
    vshim::sys_point();
    if !fd_ok(fd) {
        set_errno(EBADF);
        return -1;
    }
    let f = &mut K::fds[fd as usize];
    if f.kind == FdKind::Invalid {
        if f.closes > 0 {
            f.writes_after_close += 1;
        }
        set_errno(EBADF);
        return -1;
    }
    if let Some(_) = flags {
        if f.kind == FdKind::Pipe || f.kind == FdKind::Regular {
            set_errno(ENOTSOCK);
            return -1;
        }
    }
    if len == 0 {
        if flags.is_some() {
            f.zero_sends += 1;
            if f.kind == FdKind::Dgram {
                if f.msgs < f.cap {
                    f.msgs += 1;
                } else {
                    set_errno(EAGAIN);
                    return -1;
                }
            }
        }
        return 0;
    }
    f.write_calls += 1;
    (vshim::HOOKS.state_change)(vshim::CH_WRITE);
    if len != 1 {
        f.bad_len_writes += 1;
    }
    let nowait = f.nonblock
        || match flags {
            Some(fl) => fl & MSG_DONTWAIT != 0,
            None => false,
        };
    let full = match f.kind {
        FdKind::Dgram => f.msgs >= f.cap,
        FdKind::Regular => false,
        _ => fget(fd as usize) >= f.cap,
    };
    if f.kind != FdKind::Regular && !nowait {
        // Whether or not it is full right now, this call is allowed to sleep.
        f.may_block += 1;
    }
    if full {
        if nowait {
            set_errno(EAGAIN);
            return -1;
        }
        // a blocking write on a full descriptor: the caller hangs
        (vshim::HOOKS.wblock)(fd);
        vshim::assume(false);
    }
    match f.kind {
        FdKind::Dgram => {
            f.msgs += 1;
            fset(fd as usize, fget(fd as usize) + len as u32);
            len as ssize_t
        }
        FdKind::Regular => len as ssize_t,
        _ => {
            let cur = fget(fd as usize);
            let room = f.cap - cur;
            let n = if (len as u32) < room { len as u32 } else { room };
            fset(fd as usize, cur + n);
            n as ssize_t
        }
    }
}

/// recv()/read(): reads from the *peer* queue of `fd`.  The harness pairs
/// descriptors by convention: data written to fd w is readable from fd K::peer(w);
/// to keep the model small a read end and its write end share one entry, i.e.
/// harnesses pass the same number for both ends' model slot via `alias`.
pub static mut ALIAS: [usize; NFD] = [0, 1, 2, 3, 4, 5, 6, 7];

pub unsafe fn sys_read(fd: c_int, _buf: *mut c_void, len: size_t, flags: Option<c_int>) -> ssize_t {
    vshim::sys_point();
    if !fd_ok(fd) {
        set_errno(EBADF);
        return -1;
    }
    let slot = ALIAS[fd as usize];
    if K::fds[fd as usize].kind == FdKind::Invalid {
        set_errno(EBADF);
        return -1;
    }
    let nowait = K::fds[fd as usize].nonblock
        || match flags {
            Some(fl) => fl & MSG_DONTWAIT != 0,
            None => false,
        };
    if fget(slot) == 0 && K::fds[slot].msgs == 0 {
        if nowait {
            set_errno(EAGAIN);
            return -1;
        }
        K::fds[fd as usize].blocking_reads += 1;
        if !(vshim::HOOKS.block)(fd) {
            vshim::assume(false);
        }
        if fget(slot) == 0 {
            // woken without data (peer closed): end of file
            return 0;
        }
    }
    let f = &mut K::fds[slot];
    if f.kind == FdKind::Dgram {
        // one datagram per call; we only queue 0- and 1-byte datagrams
        f.msgs -= 1;
        if fget(slot) > 0 {
            fset(slot, fget(slot) - 1);
            return 1;
        }
        return 0;
    }
    let cur = fget(slot);
    let n = if (len as u32) < cur { len as u32 } else { cur };
    fset(slot, cur - n);
    n as ssize_t
}

pub unsafe fn sys_close(fd: c_int) -> c_int {
    vshim::sys_point();
    if !fd_ok(fd) {
        set_errno(EBADF);
        return -1;
    }
    (vshim::HOOKS.state_change)(vshim::CH_CLOSE);
    let f = &mut K::fds[fd as usize];
    f.closes += 1;
    if f.kind == FdKind::Invalid {
        set_errno(EBADF);
        return -1;
    }
    f.kind = FdKind::Invalid;
    0
}

pub unsafe fn sys_fcntl(fd: c_int, cmd: c_int, arg: c_int) -> c_int {
    if !fd_ok(fd) || K::fds[fd as usize].kind == FdKind::Invalid {
        set_errno(EBADF);
        return -1;
    }
    if K::fcntl_fail {
        set_errno(EINVAL);
        return -1;
    }
    let f = &mut K::fds[fd as usize];
    if cmd == F_GETFL {
        let mut fl = O_RDWR;
        if f.nonblock {
            fl |= O_NONBLOCK;
        }
        return fl;
    }
    if cmd == F_SETFL {
        (vshim::HOOKS.state_change)(vshim::CH_FCNTL);
        f.nonblock = arg & O_NONBLOCK != 0;
        f.cloexec_flag_set = arg & O_CLOEXEC != 0;
        return 0;
    }
    if cmd == F_GETFD || cmd == F_SETFD {
        return 0;
    }
    set_errno(EINVAL);
    -1
}

/// Harness helper: create a descriptor.
pub fn open_fd(fd: usize, kind: FdKind, cap: u32, fill: u32, nonblock: bool) {
    unsafe {
        K::fds[fd] = FD0;
        K::fds[fd].kind = kind;
        K::fds[fd].cap = cap;
        K::fds[fd].fill = fill;
        if kind == FdKind::Dgram {
            K::fds[fd].msgs = fill;
        }
        K::fds[fd].nonblock = nonblock;
    }
}
