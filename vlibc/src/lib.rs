//! `libc` stand-in for the Kani harness workspace (injected with cargo
//! `[patch.crates-io]`, see DESIGN.md §2.4).  Everything of the real libc crate is
//! re-exported unchanged; the ~20 functions signal-hook calls are replaced by a
//! small nondeterministic kernel / descriptor model (`model`), and the scheduler
//! shim (`vshim`) lives here because both repo crates already depend on `libc`.
#![feature(coerce_unsized, unsize, specialization)]
#![allow(incomplete_features)]
#![allow(non_camel_case_types, non_upper_case_globals, dead_code, static_mut_refs, unused_unsafe)]

pub use real_libc::*;

pub mod model;
pub mod vshim;

/// Smaller stand-ins for two kernel ABI structs (explicit items shadow the glob
/// re-export).  signal-hook only touches `sa_sigaction`, `sa_flags` and whole-
/// struct zeroing/copies; the 128-byte mask makes every snapshot copy in the
/// registry four times as expensive for the solver without being looked at.
/// sigset_t keeps the kernel ABI size (1024 bits); the model looks at word 0.
#[repr(C)]
#[derive(Copy, Clone)]
pub struct sigset_t {
    pub bits: [u64; 16],
}
#[repr(C)]
#[derive(Copy, Clone)]
pub struct small_mask {
    pub bits: u64,
}
#[repr(C)]
#[derive(Copy, Clone)]
pub struct sigaction {
    pub sa_sigaction: sighandler_t,
    pub sa_mask: small_mask,
    pub sa_flags: c_int,
    pub sa_restorer: Option<extern "C" fn()>,
}


pub unsafe fn sigaction(signum: c_int, act: *const sigaction, oldact: *mut sigaction) -> c_int {
    model::sys_sigaction(signum, act, oldact)
}
pub unsafe fn sigemptyset(set: *mut sigset_t) -> c_int {
    (*set).bits = [0; 16];
    0
}
pub unsafe fn sigaddset(set: *mut sigset_t, signum: c_int) -> c_int {
    if signum < 1 || signum > 64 {
        model::set_errno(EINVAL);
        return -1;
    }
    *(set as *mut u64) |= 1u64 << (signum - 1);
    0
}
pub unsafe fn sigprocmask(how: c_int, set: *const sigset_t, oldset: *mut sigset_t) -> c_int {
    model::sys_sigprocmask(how, set, oldset)
}
pub unsafe fn pthread_sigmask(how: c_int, set: *const sigset_t, oldset: *mut sigset_t) -> c_int {
    model::sys_sigprocmask(how, set, oldset)
}
pub unsafe fn raise(signum: c_int) -> c_int {
    model::sys_raise(signum)
}
pub unsafe fn kill(_pid: pid_t, signum: c_int) -> c_int {
    model::sys_raise(signum)
}
pub unsafe fn getpid() -> pid_t {
    4242
}
pub unsafe fn abort() -> ! {
    model::die(model::Outcome::Aborted)
}
pub unsafe fn _exit(status: c_int) -> ! {
    model::die(model::Outcome::Exited {
        status,
        hooks_run: false,
    })
}
pub unsafe fn exit(status: c_int) -> ! {
    model::die(model::Outcome::Exited {
        status,
        hooks_run: true,
    })
}
/// Raw system calls with one integer argument (the real `syscall` is variadic,
/// which neither this crate nor CBMC can define): `SYS_exit` ends only the calling
/// thread, `SYS_exit_group` the process; anything else is outside the model.
pub trait SysArg {
    fn sys_arg(self) -> i64;
}
impl SysArg for i32 {
    fn sys_arg(self) -> i64 {
        self as i64
    }
}
impl SysArg for i64 {
    fn sys_arg(self) -> i64 {
        self
    }
}
impl SysArg for u32 {
    fn sys_arg(self) -> i64 {
        self as i64
    }
}
impl SysArg for usize {
    fn sys_arg(self) -> i64 {
        self as i64
    }
}
pub unsafe fn syscall<A: SysArg>(num: c_long, a1: A) -> c_long {
    let a1 = a1.sys_arg() as c_int;
    if num == SYS_exit_group {
        model::die(model::Outcome::Exited {
            status: a1,
            hooks_run: false,
        })
    } else if num == SYS_exit {
        model::die(model::Outcome::ThreadExited { status: a1 })
    } else {
        model::die(model::Outcome::UnmodelledSyscall)
    }
}
pub unsafe fn send(fd: c_int, buf: *const c_void, len: size_t, flags: c_int) -> ssize_t {
    model::sys_write(fd, buf, len, Some(flags))
}
pub unsafe fn write(fd: c_int, buf: *const c_void, len: size_t) -> ssize_t {
    model::sys_write(fd, buf, len, None)
}
pub unsafe fn recv(fd: c_int, buf: *mut c_void, len: size_t, flags: c_int) -> ssize_t {
    model::sys_read(fd, buf, len, Some(flags))
}
pub unsafe fn read(fd: c_int, buf: *mut c_void, len: size_t) -> ssize_t {
    model::sys_read(fd, buf, len, None)
}
pub unsafe fn close(fd: c_int) -> c_int {
    model::sys_close(fd)
}
pub unsafe fn fcntl(fd: c_int, cmd: c_int, arg: c_int) -> c_int {
    model::sys_fcntl(fd, cmd, arg)
}
