//! vshim — shared-memory / scheduler shim compiled into signal-hook-registry
//! under `--cfg sighook_verif` (see DESIGN.md §2.3).  The instrumented files of
//! /repo import their atomics, Mutex, thread, UnsafeCell, maps and `mem` from
//! here instead of from std; every body stays as written.
//!
//! One code path, three modes (set by the harness, concretely):
//!   SEQ  – pass-through (round 0 only), counts operations, records lock events
//!   NEST – SEQ + at every point the harness-defined `vshim_interrupt` may run a
//!          complete nested operation (signal-handler semantics); weak CAS may
//!          fail spuriously within a budget
//!   LR   – Lal–Reps K-round sequentialisation: shared words live in
//!          MEM[round][var]; the running thread may advance its round at every
//!          point; MEM[k>=1] starts as a guess that must be matched at the end.
#![allow(dead_code, non_upper_case_globals, static_mut_refs, unused_unsafe, missing_docs, unused_imports, deprecated)]

pub const KMAX: usize = 4;
pub const NV: usize = 40;
pub const NB: usize = 12;
pub const NT: usize = 4;

pub const SEQ: u8 = 0;
pub const NEST: u8 = 1;
pub const LR: u8 = 2;

pub const OP_LOAD: u8 = 0;
pub const OP_STORE: u8 = 1;
pub const OP_RMW: u8 = 2;
pub const OP_CAS: u8 = 3;
pub const OP_LOCK: u8 = 4;
pub const OP_UNLOCK: u8 = 5;
pub const OP_SPIN: u8 = 6;
pub const OP_CELL: u8 = 7;
pub const OP_SYS: u8 = 8;
/// not an operation: the boundary right after a successful compare-exchange (post_point)
pub const OP_AFTER_CAS: u8 = 9;
pub const NOPK: usize = 9;

pub const KIND_USIZE: u8 = 0;
pub const KIND_BOOL: u8 = 1;
pub const KIND_U16: u8 = 2;
pub const KIND_PTR: u8 = 3;
pub const KIND_MUTEX: u8 = 4;

/// Error codes (ghost verdict flags; see `flag`).
pub const E_LOCK_IN_DELIVERY: u32 = 1 << 0;
pub const E_SPIN_IN_DELIVERY: u32 = 1 << 1;
pub const E_SELF_DEADLOCK: u32 = 1 << 2;
pub const E_LOCK_ORDER: u32 = 1 << 3;
pub const E_WEAK_ORDERING: u32 = 1 << 4;
pub const E_USER: u32 = 1 << 5; // harness oracles
pub const E_RACE: u32 = 1 << 6;
pub const E_ALLOC_IN_DELIVERY: u32 = 1 << 7;
pub const E_OPS_BOUND: u32 = 1 << 8;
pub const E_MAPCAP: u32 = 1 << 9;
/// harness-specific verdict bits
pub const fn eh(n: u32) -> u32 {
    1 << (16 + n)
}

/// Shim state: separate statics (one big struct makes every CBMC trace step
/// dump the whole struct and bloats the formula).
#[allow(non_snake_case)]
pub mod ST {
    use super::*;
    pub static mut mode: u8 = SEQ;
    pub static mut k: usize = 1; // rounds in use (LR), 1 otherwise
    pub static mut round: usize = 0; // current round of the running thread
    pub static mut tid: usize = 0; // running thread (LR) / 0
    pub static mut nvars: usize = 0; // words with an LR slot (<= NV)
    pub static mut nvars_all: usize = 0; // all words ever created
    pub static mut mem: [[u64; NV]; KMAX] = [[0; NV]; KMAX];
    pub static mut guess: [[u64; NV]; KMAX] = [[0; NV]; KMAX];
    pub static mut kind: [u8; NV] = [0; NV];
    // pointer table (LR: AtomicPtr stores indices)
    pub static mut boxes: [usize; NB] = [0; NB];
    /// which AtomicPtr word each box belongs to (a guessed pointer is only ever
    /// one of the boxes stored into that same word)
    pub static mut box_owner: [usize; NB] = [usize::MAX; NB];
    pub static mut nbox: usize = 0;
    // ghost verdicts
    pub static mut err: u32 = 0; // union of error codes
    pub static mut nest_post_points: bool = false;
    pub static mut cas_fail_at: usize = usize::MAX;
    pub static mut weak_cas_no: usize = 0;
    // enumeration harnesses: the nested operation runs exactly at this point index
    pub static mut nth_point: usize = usize::MAX;
    pub static mut point_no: usize = 0;
    pub static mut err_round: usize = usize::MAX; // earliest round at which an error was flagged
    pub static mut err_round_of: [usize; 32] = [usize::MAX; 32]; // ... per error code (bit number)
    // counters
    pub static mut ops: [u32; NOPK] = [0; NOPK];
    pub static mut ops_in_delivery: [u32; NOPK] = [0; NOPK];
    pub static mut delivery_depth: u32 = 0;
    pub static mut max_delivery_ops: u32 = 0;
    pub static mut cur_delivery_ops: u32 = 0;
    // NEST
    pub static mut nest_depth: u32 = 0;
    pub static mut ops_by_depth: [u32; 4] = [0; 4]; // operations executed at each nesting depth
    pub static mut interrupts_taken: u32 = 0;
    pub static mut nest_max_depth: u32 = 0;
    pub static mut nest_budget: u32 = 0;
    pub static mut cas_fail_budget: u32 = 0;
    pub static mut cas_fails: u32 = 0;
    // spin accounting
    pub static mut spins: u32 = 0;
    pub static mut spin_bound: u32 = 0;
    pub static mut spin_stuck: bool = false;
    // lock order
    pub static mut held: [usize; 4] = [usize::MAX; 4];
    pub static mut nheld: usize = 0;
    pub static mut order_edges: [(usize, usize); 8] = [(0, 0); 8];
    pub static mut nedges: usize = 0;
    pub static mut require_seqcst: bool = false;
    // vector clocks (C07)
    pub static mut hb_on: bool = false;
    pub static mut vc: [[u8; NT]; NT] = [[0; NT]; NT];
    pub static mut var_vc: [[[u8; NT]; NV]; KMAX] = [[[0; NT]; NV]; KMAX];
    pub static mut vc_guess: [[[u8; NT]; NV]; KMAX] = [[[0; NT]; NV]; KMAX];
    pub static mut stamp: u32 = 0;
    /// shim points are transparent (harness inspection of shared state)
    pub static mut quiet: bool = false;
    /// AtomicPtr swaps (= snapshot publications) performed so far
    pub static mut ptr_swaps: u32 = 0;
    /// keep the LR box table in step with pointer stores made in SEQ/NEST mode
    /// (set by harnesses that build state sequentially and then go LR)
    pub static mut mirror_ptrs: bool = false;
}

// ---------------------------------------------------------------------------
// nondeterminism
// ---------------------------------------------------------------------------
#[cfg(kani)]
pub fn any_usize() -> usize {
    kani::any()
}
#[cfg(kani)]
pub fn any_bool() -> bool {
    kani::any()
}
#[cfg(kani)]
pub fn any_u64() -> u64 {
    kani::any()
}
#[cfg(kani)]
pub fn assume(c: bool) {
    kani::assume(c)
}
#[cfg(not(kani))]
pub fn any_usize() -> usize {
    0
}
#[cfg(not(kani))]
pub fn any_bool() -> bool {
    false
}
#[cfg(not(kani))]
pub fn any_u64() -> u64 {
    0
}
#[cfg(not(kani))]
pub fn assume(c: bool) {
    if !c {
        // A native (non-Kani) build has no way to prune a path.
        ::std::process::exit(77);
    }
}

/// Harness-side halves of the shim and of the kernel model.  Plain function
/// pointers assigned concretely by the harness before anything runs (Kani does
/// not support `extern "Rust"` declarations; a pointer with a known value is
/// folded by the symbolic executor and also works in native playback).
pub struct Hooks {
    /// NEST: called at every shim point while depth/budget allow; runs zero or
    /// one complete nested operation.
    pub interrupt: fn(u8, usize),
    /// The kernel delivers `sig` to an installed handler on the calling thread.
    pub deliver: fn(crate::c_int),
    /// The process has ended (`model::K.outcome`): last chance to assert.
    pub terminated: fn(),
    /// A read on an empty descriptor would block; true = bytes arrived meanwhile.
    pub block: fn(crate::c_int) -> bool,
    /// A write without MSG_DONTWAIT / O_NONBLOCK on a full descriptor: the caller
    /// sleeps until somebody drains it.  The model cuts the path afterwards, so a
    /// harness whose subject is "never blocks" asserts here.
    pub wblock: fn(crate::c_int),
    /// The running code spins/yields a second time although nobody else can run
    /// (SEQ / NEST): it waits for another thread.  The harness asserts here.
    pub stuck: fn(),
    /// A state-changing event: sigaction with a new action, close(), write, a
    /// snapshot publication.  Harnesses that must see "nothing changed before
    /// the refusal" assert in here while armed.
    pub state_change: fn(u8),
    /// a shim Mutex was acquired / released (word id)
    pub on_lock: fn(usize),
    pub on_unlock: fn(usize),
}
pub const CH_SIGACTION: u8 = 1;
pub const CH_CLOSE: u8 = 2;
pub const CH_WRITE: u8 = 3;
pub const CH_PUBLISH: u8 = 4;
pub const CH_FCNTL: u8 = 5;
fn no_interrupt(_: u8, _: usize) {}
fn no_deliver(_: crate::c_int) {}
fn no_terminated() {}
fn no_block(_: crate::c_int) -> bool {
    false
}
fn no_stuck() {}
fn no_wblock(_: crate::c_int) {}
fn no_state_change(_: u8) {}
fn no_lock_event(_: usize) {}
pub static mut HOOKS: Hooks = Hooks {
    interrupt: no_interrupt,
    deliver: no_deliver,
    terminated: no_terminated,
    block: no_block,
    wblock: no_wblock,
    stuck: no_stuck,
    state_change: no_state_change,
    on_lock: no_lock_event,
    on_unlock: no_lock_event,
};

// ---------------------------------------------------------------------------
// control API for harnesses
// ---------------------------------------------------------------------------
pub fn flag(code: u32) {
    flag_at(code, unsafe { ST::round })
}

/// Flag an error whose decisive event happened in `round`.
pub fn flag_at(code: u32, round: usize) {
    unsafe {
        ST::err |= code;
        if round < ST::err_round {
            ST::err_round = round;
        }
        let b = code.trailing_zeros() as usize;
        if b < 32 && round < ST::err_round_of[b] {
            ST::err_round_of[b] = round;
        }
    }
}

/// LR verdict for one error code: it was flagged, and the guessed prefix up to the
/// round of ITS decisive event is realisable (another code's earlier round must
/// not vouch for it).
pub fn lr_violation_of(code: u32) -> bool {
    unsafe {
        let b = code.trailing_zeros() as usize;
        ST::err & code != 0 && b < 32 && consistent_upto(ST::err_round_of[b])
    }
}

pub fn quiet<R, F: FnOnce() -> R>(f: F) -> R {
    unsafe {
        let q = ST::quiet;
        ST::quiet = true;
        let r = f();
        ST::quiet = q;
        r
    }
}

pub fn errors() -> u32 {
    unsafe { ST::err }
}

pub fn set_mode_seq() {
    unsafe {
        ST::mode = SEQ;
        ST::k = 1;
        ST::round = 0;
    }
}

pub fn set_mode_nest(max_depth: u32, budget: u32, cas_fail_budget: u32) {
    unsafe {
        ST::mode = NEST;
        ST::k = 1;
        ST::round = 0;
        ST::nest_max_depth = max_depth;
        ST::nest_budget = budget;
        ST::cas_fail_budget = cas_fail_budget;
    }
}

/// Enter LR mode with `k` rounds.  Call after the shared objects have been
/// constructed (their initial values are MEM[0]); guesses MEM[1..k] are made here.
pub fn set_mode_lr(k: usize, spin_bound: u32, cas_fail_budget: u32) {
    unsafe {
        assert!(k >= 1 && k <= KMAX);
        ST::mode = LR;
        ST::k = k;
        ST::round = 0;
        ST::spin_bound = spin_bound;
        ST::cas_fail_budget = cas_fail_budget;
        let mut r = 1;
        while r < KMAX {
            if r < k {
                // eight words per iteration keeps the unwind bound of LR harnesses small
                let mut v = 0;
                while v < ST::nvars {
                    guess_word(r, v);
                    guess_word(r, v + 1);
                    guess_word(r, v + 2);
                    guess_word(r, v + 3);
                    guess_word(r, v + 4);
                    guess_word(r, v + 5);
                    guess_word(r, v + 6);
                    guess_word(r, v + 7);
                    v += 8;
                }
            }
            r += 1;
        }
    }
}
unsafe fn guess_word(r: usize, v: usize) {
    if v < ST::nvars && v < NV {
        let g = any_u64();
        match ST::kind[v] {
            KIND_BOOL | KIND_MUTEX => assume(g <= 1),
            KIND_PTR => assume(g < NB as u64),
            KIND_U16 => assume(g <= 0xffff),
            _ => {}
        }
        ST::guess[r][v] = g;
        ST::mem[r][v] = g;
    }
}

/// Number of shared words allocated so far (harness: bound for its own loops).
pub fn nvars() -> usize {
    unsafe { ST::nvars }
}

pub fn thread_start(tid: usize) {
    unsafe {
        ST::tid = tid;
        ST::round = 0;
        ST::spins = 0;
        ST::cas_fails = 0;
        ST::nheld = 0;
    }
}

pub fn round() -> usize {
    unsafe { ST::round }
}
pub fn tid() -> usize {
    unsafe { ST::tid }
}

/// Global "time" of the running thread's current position in the round-robin
/// schedule that LR encodes: (round, thread) lexicographic.
pub fn now() -> usize {
    unsafe { ST::round * NT + ST::tid }
}

/// Were the guesses consistent for rounds < `upto`?  (MEM[r] final == GUESS[r+1].)
pub fn consistent_upto(upto: usize) -> bool {
    unsafe {
        let mut ok = true;
        let mut r = 0;
        while r + 1 < KMAX {
            if r + 1 < ST::k && r < upto {
                let mut v = 0;
                while v < ST::nvars {
                    ok = ok
                        & word_consistent(r, v)
                        & word_consistent(r, v + 1)
                        & word_consistent(r, v + 2)
                        & word_consistent(r, v + 3)
                        & word_consistent(r, v + 4)
                        & word_consistent(r, v + 5)
                        & word_consistent(r, v + 6)
                        & word_consistent(r, v + 7);
                    v += 8;
                }
            }
            r += 1;
        }
        ok
    }
}
unsafe fn word_consistent(r: usize, v: usize) -> bool {
    if v >= ST::nvars || v >= NV {
        return true;
    }
    let mut ok = ST::mem[r][v] == ST::guess[r + 1][v];
    if ST::hb_on {
        // released clocks travel with the word
        let mut c = 0;
        while c < NT {
            if ST::var_vc[r][v][c] != ST::vc_guess[r + 1][v][c] {
                ok = false;
            }
            c += 1;
        }
    }
    ok
}

pub fn consistent() -> bool {
    consistent_upto(KMAX)
}

/// The LR verdict: an error counts iff the guessed prefix up to and including
/// the round in which it was flagged is realisable.
/// (Later rounds need not be consistent: the error has already happened.)
pub fn lr_violation() -> bool {
    unsafe { ST::err != 0 && consistent_upto(ST::err_round) }
}

pub fn delivery_enter() {
    unsafe {
        if ST::delivery_depth == 0 {
            ST::cur_delivery_ops = 0;
        }
        ST::delivery_depth += 1;
    }
}
pub fn delivery_exit() {
    unsafe {
        ST::delivery_depth -= 1;
        if ST::delivery_depth == 0 && ST::cur_delivery_ops > ST::max_delivery_ops {
            ST::max_delivery_ops = ST::cur_delivery_ops;
        }
    }
}
pub fn in_delivery() -> bool {
    unsafe { ST::delivery_depth > 0 }
}
pub fn ops(kind: u8) -> u32 {
    unsafe { ST::ops[kind as usize] }
}
pub fn ops_in_delivery(kind: u8) -> u32 {
    unsafe { ST::ops_in_delivery[kind as usize] }
}
pub fn max_delivery_ops() -> u32 {
    unsafe { ST::max_delivery_ops }
}
pub fn next_stamp() -> u32 {
    unsafe {
        ST::stamp += 1;
        ST::stamp
    }
}
pub fn lock_edges() -> usize {
    unsafe { ST::nedges }
}
pub fn lock_edge(i: usize) -> (usize, usize) {
    unsafe { ST::order_edges[i] }
}
pub fn spin_stuck() -> bool {
    unsafe { ST::spin_stuck }
}

/// Enable happens-before tracking (C07). Call right after `set_mode_lr`:
/// every guessed word of rounds >= 1 then also carries a guessed released clock.
pub fn hb_enable() {
    unsafe {
        ST::hb_on = true;
        let mut r = 1;
        while r < KMAX {
            if r < ST::k {
                let mut v = 0;
                while v < ST::nvars {
                    guess_clock(r, v);
                    guess_clock(r, v + 1);
                    guess_clock(r, v + 2);
                    guess_clock(r, v + 3);
                    v += 4;
                }
            }
            r += 1;
        }
    }
}
unsafe fn guess_clock(r: usize, v: usize) {
    if v < ST::nvars && v < NV {
        let mut c = 0;
        while c < NT {
            let g: u8 = (any_usize() & 0xf) as u8;
            ST::var_vc[r][v][c] = g;
            ST::vc_guess[r][v][c] = g;
            c += 1;
        }
    }
}

/// Tick the running thread's own clock component (a new event).
pub fn hb_tick() -> [u8; NT] {
    unsafe {
        let t = ST::tid;
        ST::vc[t][t] += 1;
        ST::vc[t]
    }
}
pub fn hb_clock() -> [u8; NT] {
    unsafe { ST::vc[ST::tid] }
}
/// a happens-before-or-equal b
pub fn hb_leq(a: &[u8; NT], b: &[u8; NT]) -> bool {
    let mut ok = true;
    let mut c = 0;
    while c < NT {
        if a[c] > b[c] {
            ok = false;
        }
        c += 1;
    }
    ok
}

// ---------------------------------------------------------------------------
// the point: every shared operation goes through here first
// ---------------------------------------------------------------------------
fn new_var(init: u64, kind: u8) -> usize {
    unsafe {
        let id = ST::nvars_all;
        ST::nvars_all += 1;
        if id >= NV {
            // no LR slot: usable in SEQ / NEST mode only
            return id;
        }
        ST::nvars += 1;
        ST::kind[id] = kind;
        // A word created while threads are running (e.g. a Channel built by a
        // harness thread) starts with the same value in every round's copy.
        let mut r = 0;
        while r < KMAX {
            ST::mem[r][id] = init;
            ST::guess[r][id] = init;
            r += 1;
        }
        id
    }
}

fn sched() {
    unsafe {
        let r = any_usize();
        assume(r >= ST::round && r < ST::k);
        ST::round = r;
    }
}

pub fn point(kind: u8, var: usize, ord: Ordering) {
    unsafe {
        if ST::quiet {
            return;
        }
        // (wrapping: a native replay of code that spins forever must hang, not
        // die of a counter overflow)
        ST::ops[kind as usize] = ST::ops[kind as usize].wrapping_add(1);
        if (ST::nest_depth as usize) < 4 {
            ST::ops_by_depth[ST::nest_depth as usize] = ST::ops_by_depth[ST::nest_depth as usize].wrapping_add(1);
        }
        if ST::delivery_depth > 0 {
            ST::ops_in_delivery[kind as usize] = ST::ops_in_delivery[kind as usize].wrapping_add(1);
            ST::cur_delivery_ops = ST::cur_delivery_ops.wrapping_add(1);
        }
        if ST::require_seqcst && kind != OP_CELL && kind != OP_SYS {
            match ord {
                Ordering::SeqCst => {}
                _ => flag(E_WEAK_ORDERING),
            }
        }
        if ST::mode == LR {
            sched();
        } else if ST::mode == NEST {
            if ST::nest_depth < ST::nest_max_depth && ST::nest_budget > 0 {
                ST::nest_depth += 1;
                (HOOKS.interrupt)(kind, var);
                ST::nest_depth -= 1;
            }
        }
    }
}

/// NEST only, opt-in (`ST::nest_post_points`): a second chance for the harness's
/// interrupt hook right AFTER a successful compare-exchange took effect.  The
/// points before every operation cover all instruction boundaries as long as the
/// code's plain (non-shim) accesses to shared cells directly follow the `get()`
/// that produced the pointer; code that obtains the pointer first, performs an
/// atomic operation and only then dereferences needs the boundary after it too.
pub fn post_point(kind: u8, var: usize) {
    unsafe {
        if ST::quiet || ST::mode != NEST || !ST::nest_post_points {
            return;
        }
        if ST::nest_depth < ST::nest_max_depth && ST::nest_budget > 0 {
            ST::nest_depth += 1;
            (HOOKS.interrupt)(kind, var);
            ST::nest_depth -= 1;
        }
    }
}

/// A scheduling point that is not an access to a shim word (system calls, harness events).
pub fn sys_point() {
    if unsafe { ST::quiet } {
        return;
    }
    point(OP_SYS, usize::MAX, Ordering::SeqCst)
}

/// Enumeration harnesses: is this call of the interrupt hook the one selected by
/// `ST::nth_point`?  (Both are concrete, so symex folds the branch.)
pub fn is_nth_point() -> bool {
    unsafe {
        let hit = ST::point_no == ST::nth_point;
        ST::point_no += 1;
        hit
    }
}
/// Start one enumerated run: nested operation at point `p`, the `f`-th weak CAS fails.
pub fn enumerate(p: usize, f: usize) {
    unsafe {
        ST::nth_point = p;
        ST::point_no = 0;
        ST::cas_fail_at = f;
        ST::weak_cas_no = 0;
        ST::cas_fails = 0;
        ST::interrupts_taken = 0;
    }
}
pub fn points_seen() -> usize {
    unsafe { ST::point_no }
}
pub fn weak_cas_seen() -> usize {
    unsafe { ST::weak_cas_no }
}

/// Called by the harness's `vshim_interrupt` when it decides to run something.
pub fn consume_interrupt() {
    unsafe {
        ST::nest_budget -= 1;
        ST::interrupts_taken += 1;
    }
}
pub fn ops_at_depth(d: usize) -> u32 {
    unsafe { ST::ops_by_depth[d] }
}
pub fn interrupts_taken() -> u32 {
    unsafe { ST::interrupts_taken }
}
pub fn ptr_swaps() -> u32 {
    unsafe { ST::ptr_swaps }
}
pub fn cas_fails() -> u32 {
    unsafe { ST::cas_fails }
}
pub fn nest_depth() -> u32 {
    unsafe { ST::nest_depth }
}

/// Outside LR mode the value lives inline in the object; in LR mode it lives
/// in the round-indexed table (only the first NV words created have a slot).
fn rd(var: usize, inline: &::std::cell::UnsafeCell<u64>) -> u64 {
    unsafe {
        if ST::mode == LR {
            assert!(var < NV, "vshim: word without LR slot used in LR mode");
            ST::mem[ST::round][var]
        } else {
            *inline.get()
        }
    }
}
fn wr(var: usize, inline: &::std::cell::UnsafeCell<u64>, v: u64) {
    unsafe {
        if ST::mode == LR {
            assert!(var < NV, "vshim: word without LR slot used in LR mode");
            ST::mem[ST::round][var] = v
        } else {
            *inline.get() = v;
            if var < NV {
                // mirror, so that a later switch to LR mode starts from the current values
                ST::mem[0][var] = v;
            }
        }
    }
}

fn is_acquire(o: Ordering) -> bool {
    match o {
        Ordering::Acquire | Ordering::AcqRel | Ordering::SeqCst => true,
        _ => false,
    }
}
fn is_release(o: Ordering) -> bool {
    match o {
        Ordering::Release | Ordering::AcqRel | Ordering::SeqCst => true,
        _ => false,
    }
}

/// happens-before bookkeeping around an access to `var`.
/// `wrote`: the operation stores a value; `rmw`: it is a read-modify-write.
fn hb_access(var: usize, ord: Ordering, read: bool, wrote: bool, rmw: bool) {
    unsafe {
        if !ST::hb_on {
            return;
        }
        let t = ST::tid;
        let r = ST::round;
        if read && is_acquire(ord) {
            let mut c = 0;
            while c < NT {
                if ST::var_vc[r][var][c] > ST::vc[t][c] {
                    ST::vc[t][c] = ST::var_vc[r][var][c];
                }
                c += 1;
            }
        }
        if wrote {
            if is_release(ord) {
                let mut c = 0;
                while c < NT {
                    let mine = ST::vc[t][c];
                    if rmw {
                        // continues the release sequence: join
                        if mine > ST::var_vc[r][var][c] {
                            ST::var_vc[r][var][c] = mine;
                        }
                    } else {
                        ST::var_vc[r][var][c] = mine;
                    }
                    c += 1;
                }
            } else if !rmw {
                // a relaxed plain store breaks the release sequence
                let mut c = 0;
                while c < NT {
                    ST::var_vc[r][var][c] = 0;
                    c += 1;
                }
            }
            // relaxed RMW: release sequence continues, clock unchanged
        }
    }
}

fn may_fail_spuriously() -> bool {
    unsafe {
        // enumeration harnesses: exactly the n-th weak CAS (a concrete index) fails
        if ST::cas_fail_at != usize::MAX {
            let n = ST::weak_cas_no;
            ST::weak_cas_no += 1;
            if n == ST::cas_fail_at {
                ST::cas_fails += 1;
                return true;
            }
            return false;
        }
        if ST::cas_fails < ST::cas_fail_budget && (ST::mode == LR || ST::mode == NEST) {
            if any_bool() {
                ST::cas_fails += 1;
                return true;
            }
        }
        false
    }
}

// ---------------------------------------------------------------------------
// atomics
// ---------------------------------------------------------------------------
pub use self::atomic::Ordering;

pub mod atomic {
    use super::*;
    pub use std::sync::atomic::Ordering;

    pub fn fence(_: Ordering) {}
    pub fn compiler_fence(_: Ordering) {}
    pub fn spin_loop_hint() {
        super::spin()
    }

    macro_rules! int_atomic {
        ($name:ident, $t:ty, $kind:expr) => {
            pub struct $name {
                pub id: usize,
                v: ::std::cell::UnsafeCell<u64>,
            }
            unsafe impl Sync for $name {}
            impl $name {
                pub fn new(v: $t) -> Self {
                    $name {
                        id: new_var(v as u64, $kind),
                        v: ::std::cell::UnsafeCell::new(v as u64),
                    }
                }
                pub fn load(&self, o: Ordering) -> $t {
                    point(OP_LOAD, self.id, o);
                    hb_access(self.id, o, true, false, false);
                    rd(self.id, &self.v) as $t
                }
                pub fn store(&self, v: $t, o: Ordering) {
                    point(OP_STORE, self.id, o);
                    hb_access(self.id, o, false, true, false);
                    wr(self.id, &self.v, v as u64)
                }
                pub fn swap(&self, v: $t, o: Ordering) -> $t {
                    point(OP_RMW, self.id, o);
                    hb_access(self.id, o, true, true, true);
                    let old = rd(self.id, &self.v) as $t;
                    wr(self.id, &self.v, v as u64);
                    old
                }
                pub fn fetch_add(&self, d: $t, o: Ordering) -> $t {
                    point(OP_RMW, self.id, o);
                    hb_access(self.id, o, true, true, true);
                    let old = rd(self.id, &self.v) as $t;
                    wr(self.id, &self.v, old.wrapping_add(d) as u64);
                    old
                }
                pub fn fetch_sub(&self, d: $t, o: Ordering) -> $t {
                    point(OP_RMW, self.id, o);
                    hb_access(self.id, o, true, true, true);
                    let old = rd(self.id, &self.v) as $t;
                    wr(self.id, &self.v, old.wrapping_sub(d) as u64);
                    old
                }
                pub fn fetch_or(&self, d: $t, o: Ordering) -> $t {
                    point(OP_RMW, self.id, o);
                    hb_access(self.id, o, true, true, true);
                    let old = rd(self.id, &self.v) as $t;
                    wr(self.id, &self.v, (old | d) as u64);
                    old
                }
                pub fn fetch_and(&self, d: $t, o: Ordering) -> $t {
                    point(OP_RMW, self.id, o);
                    hb_access(self.id, o, true, true, true);
                    let old = rd(self.id, &self.v) as $t;
                    wr(self.id, &self.v, (old & d) as u64);
                    old
                }
                pub fn fetch_xor(&self, d: $t, o: Ordering) -> $t {
                    point(OP_RMW, self.id, o);
                    hb_access(self.id, o, true, true, true);
                    let old = rd(self.id, &self.v) as $t;
                    wr(self.id, &self.v, (old ^ d) as u64);
                    old
                }
                pub fn fetch_max(&self, d: $t, o: Ordering) -> $t {
                    point(OP_RMW, self.id, o);
                    hb_access(self.id, o, true, true, true);
                    let old = rd(self.id, &self.v) as $t;
                    wr(self.id, &self.v, (if old > d { old } else { d }) as u64);
                    old
                }
                pub fn fetch_min(&self, d: $t, o: Ordering) -> $t {
                    point(OP_RMW, self.id, o);
                    hb_access(self.id, o, true, true, true);
                    let old = rd(self.id, &self.v) as $t;
                    wr(self.id, &self.v, (if old < d { old } else { d }) as u64);
                    old
                }
                pub fn compare_exchange(
                    &self,
                    cur: $t,
                    new: $t,
                    ok: Ordering,
                    fail: Ordering,
                ) -> Result<$t, $t> {
                    point(OP_CAS, self.id, ok);
                    let old = rd(self.id, &self.v) as $t;
                    if old == cur {
                        hb_access(self.id, ok, true, true, true);
                        wr(self.id, &self.v, new as u64);
                        post_point(OP_AFTER_CAS, self.id);
                        Ok(old)
                    } else {
                        hb_access(self.id, fail, true, false, false);
                        Err(old)
                    }
                }
                pub fn compare_exchange_weak(
                    &self,
                    cur: $t,
                    new: $t,
                    ok: Ordering,
                    fail: Ordering,
                ) -> Result<$t, $t> {
                    point(OP_CAS, self.id, ok);
                    let old = rd(self.id, &self.v) as $t;
                    if old == cur && !may_fail_spuriously() {
                        hb_access(self.id, ok, true, true, true);
                        wr(self.id, &self.v, new as u64);
                        post_point(OP_AFTER_CAS, self.id);
                        Ok(old)
                    } else {
                        hb_access(self.id, fail, true, false, false);
                        Err(old)
                    }
                }
                pub fn compare_and_swap(&self, cur: $t, new: $t, o: Ordering) -> $t {
                    match self.compare_exchange(cur, new, o, Ordering::Relaxed) {
                        Ok(x) => x,
                        Err(x) => x,
                    }
                }
                pub fn fetch_update<F: FnMut($t) -> Option<$t>>(
                    &self,
                    set: Ordering,
                    fetch: Ordering,
                    mut f: F,
                ) -> Result<$t, $t> {
                    let mut prev = self.load(fetch);
                    while let Some(next) = f(prev) {
                        match self.compare_exchange_weak(prev, next, set, fetch) {
                            x @ Ok(_) => return x,
                            Err(next_prev) => prev = next_prev,
                        }
                    }
                    Err(prev)
                }
                pub fn get_mut_value(&mut self) -> $t {
                    rd(self.id, &self.v) as $t
                }
                pub fn into_inner(self) -> $t {
                    rd(self.id, &self.v) as $t
                }
            }
            impl Default for $name {
                fn default() -> Self {
                    Self::new(0 as $t)
                }
            }
            impl ::std::fmt::Debug for $name {
                fn fmt(&self, f: &mut ::std::fmt::Formatter) -> ::std::fmt::Result {
                    f.write_str(stringify!($name))
                }
            }
            impl From<$t> for $name {
                fn from(v: $t) -> Self {
                    Self::new(v)
                }
            }
        };
    }
    int_atomic!(AtomicUsize, usize, KIND_USIZE);
    int_atomic!(AtomicIsize, isize, KIND_USIZE);
    int_atomic!(AtomicU64, u64, KIND_USIZE);
    int_atomic!(AtomicU32, u32, KIND_USIZE);
    int_atomic!(AtomicU16, u16, KIND_U16);
    int_atomic!(AtomicU8, u8, KIND_U16);
    int_atomic!(AtomicI32, i32, KIND_USIZE);

    pub struct AtomicBool {
        pub id: usize,
        v: ::std::cell::UnsafeCell<u64>,
    }
    unsafe impl Sync for AtomicBool {}
    impl AtomicBool {
        pub fn new(v: bool) -> Self {
            AtomicBool {
                id: new_var(v as u64, KIND_BOOL),
                v: ::std::cell::UnsafeCell::new(v as u64),
            }
        }
        pub fn load(&self, o: Ordering) -> bool {
            point(OP_LOAD, self.id, o);
            hb_access(self.id, o, true, false, false);
            rd(self.id, &self.v) != 0
        }
        pub fn store(&self, v: bool, o: Ordering) {
            point(OP_STORE, self.id, o);
            hb_access(self.id, o, false, true, false);
            wr(self.id, &self.v, v as u64)
        }
        pub fn swap(&self, v: bool, o: Ordering) -> bool {
            point(OP_RMW, self.id, o);
            hb_access(self.id, o, true, true, true);
            let old = rd(self.id, &self.v) != 0;
            wr(self.id, &self.v, v as u64);
            old
        }
        pub fn fetch_or(&self, v: bool, o: Ordering) -> bool {
            point(OP_RMW, self.id, o);
            hb_access(self.id, o, true, true, true);
            let old = rd(self.id, &self.v) != 0;
            wr(self.id, &self.v, (old | v) as u64);
            old
        }
        pub fn fetch_and(&self, v: bool, o: Ordering) -> bool {
            point(OP_RMW, self.id, o);
            hb_access(self.id, o, true, true, true);
            let old = rd(self.id, &self.v) != 0;
            wr(self.id, &self.v, (old & v) as u64);
            old
        }
        pub fn fetch_xor(&self, v: bool, o: Ordering) -> bool {
            point(OP_RMW, self.id, o);
            hb_access(self.id, o, true, true, true);
            let old = rd(self.id, &self.v) != 0;
            wr(self.id, &self.v, (old ^ v) as u64);
            old
        }
        pub fn compare_exchange(
            &self,
            cur: bool,
            new: bool,
            ok: Ordering,
            fail: Ordering,
        ) -> Result<bool, bool> {
            point(OP_CAS, self.id, ok);
            let old = rd(self.id, &self.v) != 0;
            if old == cur {
                hb_access(self.id, ok, true, true, true);
                wr(self.id, &self.v, new as u64);
                Ok(old)
            } else {
                hb_access(self.id, fail, true, false, false);
                Err(old)
            }
        }
        pub fn compare_exchange_weak(
            &self,
            cur: bool,
            new: bool,
            ok: Ordering,
            fail: Ordering,
        ) -> Result<bool, bool> {
            point(OP_CAS, self.id, ok);
            let old = rd(self.id, &self.v) != 0;
            if old == cur && !may_fail_spuriously() {
                hb_access(self.id, ok, true, true, true);
                wr(self.id, &self.v, new as u64);
                Ok(old)
            } else {
                hb_access(self.id, fail, true, false, false);
                Err(old)
            }
        }
        pub fn compare_and_swap(&self, cur: bool, new: bool, o: Ordering) -> bool {
            match self.compare_exchange(cur, new, o, Ordering::Relaxed) {
                Ok(x) => x,
                Err(x) => x,
            }
        }
        pub fn into_inner(self) -> bool {
            rd(self.id, &self.v) != 0
        }
    }
    impl Default for AtomicBool {
        fn default() -> Self {
            Self::new(false)
        }
    }
    impl ::std::fmt::Debug for AtomicBool {
        fn fmt(&self, f: &mut ::std::fmt::Formatter) -> ::std::fmt::Result {
            f.write_str("AtomicBool")
        }
    }

    /// In SEQ/NEST mode the pointer is kept inline (real provenance); in LR
    /// mode the word holds an index into the box table.
    pub struct AtomicPtr<T> {
        pub id: usize,
        p: ::std::cell::UnsafeCell<*mut T>,
    }
    unsafe impl<T> Send for AtomicPtr<T> {}
    unsafe impl<T> Sync for AtomicPtr<T> {}
    impl<T> AtomicPtr<T> {
        pub fn new(p: *mut T) -> Self {
            let id = new_var(0, KIND_PTR);
            if id < NV {
                let idx = super::box_idx(id, p as usize) as u64;
                unsafe {
                    let mut r = 0;
                    while r < KMAX {
                        ST::mem[r][id] = idx;
                        ST::guess[r][id] = idx;
                        r += 1;
                    }
                }
            }
            AtomicPtr {
                id,
                p: ::std::cell::UnsafeCell::new(p),
            }
        }
        fn get(&self) -> *mut T {
            unsafe {
                if ST::mode == LR {
                    assert!(self.id < NV);
                    let i = ST::mem[ST::round][self.id] as usize;
                    assume(i < ST::nbox);
                    // only boxes that were stored into this very word are candidates
                    let mut p: usize = 0;
                    let mut j = 1;
                    while j < ST::nbox {
                        if ST::box_owner[j] == self.id && j == i {
                            p = ST::boxes[j];
                        }
                        j += 1;
                    }
                    assume(i == 0 || p != 0);
                    p as *mut T
                } else {
                    *self.p.get()
                }
            }
        }
        fn set(&self, p: *mut T) {
            unsafe {
                if ST::mode == LR {
                    let i = super::box_idx(self.id, p as usize);
                    assert!(self.id < NV);
                    ST::mem[ST::round][self.id] = i as u64;
                } else {
                    *self.p.get() = p;
                    if self.id < NV && ST::mirror_ptrs {
                        // so that a later switch to LR mode starts from the current pointer
                        ST::mem[0][self.id] = super::box_idx(self.id, p as usize) as u64;
                    }
                }
            }
        }
        pub fn load(&self, o: Ordering) -> *mut T {
            point(OP_LOAD, self.id, o);
            hb_access(self.id, o, true, false, false);
            self.get()
        }
        pub fn store(&self, p: *mut T, o: Ordering) {
            point(OP_STORE, self.id, o);
            hb_access(self.id, o, false, true, false);
            self.set(p)
        }
        pub fn swap(&self, p: *mut T, o: Ordering) -> *mut T {
            point(OP_RMW, self.id, o);
            unsafe {
                ST::ptr_swaps += 1;
                (HOOKS.state_change)(CH_PUBLISH);
            }
            hb_access(self.id, o, true, true, true);
            let old = self.get();
            self.set(p);
            old
        }
        pub fn compare_exchange(
            &self,
            cur: *mut T,
            new: *mut T,
            ok: Ordering,
            fail: Ordering,
        ) -> Result<*mut T, *mut T> {
            point(OP_CAS, self.id, ok);
            let old = self.get();
            if old == cur {
                hb_access(self.id, ok, true, true, true);
                self.set(new);
                Ok(old)
            } else {
                hb_access(self.id, fail, true, false, false);
                Err(old)
            }
        }
        pub fn compare_exchange_weak(
            &self,
            cur: *mut T,
            new: *mut T,
            ok: Ordering,
            fail: Ordering,
        ) -> Result<*mut T, *mut T> {
            point(OP_CAS, self.id, ok);
            let old = self.get();
            if old == cur && !may_fail_spuriously() {
                hb_access(self.id, ok, true, true, true);
                self.set(new);
                Ok(old)
            } else {
                hb_access(self.id, fail, true, false, false);
                Err(old)
            }
        }
        pub fn compare_and_swap(&self, cur: *mut T, new: *mut T, o: Ordering) -> *mut T {
            match self.compare_exchange(cur, new, o, Ordering::Relaxed) {
                Ok(x) => x,
                Err(x) => x,
            }
        }
        pub fn get_mut(&mut self) -> &mut *mut T {
            unsafe { &mut *self.p.get() }
        }
        pub fn into_inner(self) -> *mut T {
            self.get()
        }
    }
    impl<T> Default for AtomicPtr<T> {
        fn default() -> Self {
            Self::new(::std::ptr::null_mut())
        }
    }
    impl<T> ::std::fmt::Debug for AtomicPtr<T> {
        fn fmt(&self, f: &mut ::std::fmt::Formatter) -> ::std::fmt::Result {
            f.write_str("AtomicPtr")
        }
    }
}

/// Index of `addr` in the box table of pointer word `owner` (allocating an
/// entry for a new address).  Entry 0 is the null pointer, shared by all words.
pub fn box_idx(owner: usize, addr: usize) -> usize {
    unsafe {
        if ST::nbox == 0 {
            ST::boxes[0] = 0;
            ST::nbox = 1;
        }
        if addr == 0 {
            return 0;
        }
        let mut i = 1;
        let mut found = usize::MAX;
        while i < ST::nbox {
            if ST::boxes[i] == addr && ST::box_owner[i] == owner && found == usize::MAX {
                found = i;
            }
            i += 1;
        }
        if found != usize::MAX {
            return found;
        }
        assert!(ST::nbox < NB, "vshim: box table full");
        ST::boxes[ST::nbox] = addr;
        ST::box_owner[ST::nbox] = owner;
        ST::nbox += 1;
        ST::nbox - 1
    }
}

pub fn box_count() -> usize {
    unsafe { ST::nbox }
}

// ---------------------------------------------------------------------------
// round-versioned words for the kernel model (a descriptor's fill level must be
// shared state like any atomic when threads are sequentialised)
// ---------------------------------------------------------------------------
pub fn lr_new(init: u64) -> usize {
    let id = new_var(init, KIND_USIZE);
    assert!(id < NV, "vshim: no LR slot left");
    id
}
pub fn lr_rd(var: usize) -> u64 {
    unsafe { ST::mem[ST::round][var] }
}
pub fn lr_wr(var: usize, v: u64) {
    unsafe { ST::mem[ST::round][var] = v }
}
pub fn is_lr() -> bool {
    unsafe { ST::mode == LR }
}

// ---------------------------------------------------------------------------
// spinning / yielding
// ---------------------------------------------------------------------------
pub fn spin() {
    unsafe {
        ST::ops[OP_SPIN as usize] += 1;
        if ST::delivery_depth > 0 {
            ST::ops_in_delivery[OP_SPIN as usize] += 1;
            flag(E_SPIN_IN_DELIVERY);
        }
        ST::spins += 1;
        if ST::mode == LR {
            (HOOKS.stuck)();
            // Iterations that do not advance the round re-read identical values
            // (stutter); only K-1 advances exist, so more than spin_bound
            // iterations add no behaviour inside the K-round bound.
            assume(ST::spins < ST::spin_bound);
        } else {
            // SEQ / NEST: nobody else can run, so a second spin iteration means
            // the code waits for something that will never change.
            if ST::spins >= 2 {
                ST::spin_stuck = true;
                (HOOKS.stuck)();
                assume(false);
            }
        }
    }
}
pub fn reset_spins() {
    unsafe { ST::spins = 0 }
}

pub mod hint {
    pub fn spin_loop() {
        super::spin()
    }
}

pub mod thread {
    pub fn yield_now() {
        super::spin()
    }
    pub fn sleep(_: ::std::time::Duration) {
        super::spin()
    }
}

// ---------------------------------------------------------------------------
// Mutex
// ---------------------------------------------------------------------------
pub struct Mutex<T> {
    pub id: usize,
    w: ::std::cell::UnsafeCell<u64>,
    poisoned: ::std::cell::UnsafeCell<bool>,
    data: ::std::cell::UnsafeCell<T>,
}
unsafe impl<T: Send> Send for Mutex<T> {}
unsafe impl<T: Send> Sync for Mutex<T> {}
pub struct MutexGuard<'a, T: 'a> {
    m: &'a Mutex<T>,
}
pub struct PoisonError<G> {
    g: G,
}
pub type LockResult<G> = Result<G, PoisonError<G>>;
impl<G> PoisonError<G> {
    pub fn new(g: G) -> Self {
        PoisonError { g }
    }
    pub fn into_inner(self) -> G {
        self.g
    }
    pub fn get_ref(&self) -> &G {
        &self.g
    }
    pub fn get_mut(&mut self) -> &mut G {
        &mut self.g
    }
}
impl<G> ::std::fmt::Debug for PoisonError<G> {
    fn fmt(&self, f: &mut ::std::fmt::Formatter) -> ::std::fmt::Result {
        f.write_str("PoisonError")
    }
}
impl<G> ::std::fmt::Display for PoisonError<G> {
    fn fmt(&self, f: &mut ::std::fmt::Formatter) -> ::std::fmt::Result {
        f.write_str("poisoned lock")
    }
}
impl<T> Mutex<T> {
    pub fn new(v: T) -> Self {
        Mutex {
            id: new_var(0, KIND_MUTEX),
            w: ::std::cell::UnsafeCell::new(0),
            poisoned: ::std::cell::UnsafeCell::new(false),
            data: ::std::cell::UnsafeCell::new(v),
        }
    }
    pub fn lock(&self) -> LockResult<MutexGuard<'_, T>> {
        point(OP_LOCK, self.id, Ordering::SeqCst);
        unsafe {
            if ST::delivery_depth > 0 {
                flag(E_LOCK_IN_DELIVERY);
            }
            if ST::mode == LR {
                assume(rd(self.id, &self.w) == 0);
            } else if rd(self.id, &self.w) != 0 {
                // held by the code we interrupted (or by ourselves): never returns
                flag(E_SELF_DEADLOCK);
                assume(false);
            }
            wr(self.id, &self.w, 1);
            (HOOKS.on_lock)(self.id);
            hb_access(self.id, Ordering::Acquire, true, true, true);
            // lock-order edges: (already held) -> (now taken)
            let mut i = 0;
            while i < 4 {
                if i < ST::nheld && ST::nedges < 8 {
                    ST::order_edges[ST::nedges] = (ST::held[i], self.id);
                    ST::nedges += 1;
                }
                i += 1;
            }
            if ST::nheld < 4 {
                ST::held[ST::nheld] = self.id;
                ST::nheld += 1;
            }
            if *self.poisoned.get() {
                return Err(PoisonError::new(MutexGuard { m: self }));
            }
        }
        Ok(MutexGuard { m: self })
    }
    pub fn try_lock(&self) -> Result<MutexGuard<'_, T>, ()> {
        point(OP_LOCK, self.id, Ordering::SeqCst);
        if rd(self.id, &self.w) != 0 {
            return Err(());
        }
        wr(self.id, &self.w, 1);
        Ok(MutexGuard { m: self })
    }
    /// Harness: mark the mutex as poisoned (a holder panicked earlier).
    pub fn verif_poison(&self) {
        unsafe { *self.poisoned.get() = true }
    }
    pub fn verif_locked(&self) -> bool {
        unsafe { *self.w.get() != 0 }
    }
    pub fn is_poisoned(&self) -> bool {
        unsafe { *self.poisoned.get() }
    }
    pub fn into_inner(self) -> LockResult<T> {
        Ok(self.data.into_inner())
    }
    pub fn get_mut(&mut self) -> LockResult<&mut T> {
        Ok(unsafe { &mut *self.data.get() })
    }
}
impl<'a, T> Drop for MutexGuard<'a, T> {
    fn drop(&mut self) {
        point(OP_UNLOCK, self.m.id, Ordering::SeqCst);
        hb_access(self.m.id, Ordering::Release, false, true, false);
        wr(self.m.id, &self.m.w, 0);
        unsafe { (HOOKS.on_unlock)(self.m.id) };
        unsafe {
            // remove from held list
            let mut i = 0;
            let mut j = 0;
            while i < 4 {
                if i < ST::nheld && ST::held[i] != self.m.id {
                    ST::held[j] = ST::held[i];
                    j += 1;
                }
                i += 1;
            }
            ST::nheld = j;
        }
    }
}
impl<'a, T> ::std::ops::Deref for MutexGuard<'a, T> {
    type Target = T;
    fn deref(&self) -> &T {
        unsafe { &*self.m.data.get() }
    }
}
impl<'a, T> ::std::ops::DerefMut for MutexGuard<'a, T> {
    fn deref_mut(&mut self) -> &mut T {
        unsafe { &mut *self.m.data.get() }
    }
}
impl<T: Default> Default for Mutex<T> {
    fn default() -> Self {
        Mutex::new(T::default())
    }
}
impl<T> ::std::fmt::Debug for Mutex<T> {
    fn fmt(&self, f: &mut ::std::fmt::Formatter) -> ::std::fmt::Result {
        f.write_str("Mutex")
    }
}
impl<'a, T> ::std::fmt::Debug for MutexGuard<'a, T> {
    fn fmt(&self, f: &mut ::std::fmt::Formatter) -> ::std::fmt::Result {
        f.write_str("MutexGuard")
    }
}

// ---------------------------------------------------------------------------
// UnsafeCell with access events (channel cells, C07)
// ---------------------------------------------------------------------------
pub mod cell {
    use super::*;
    pub const NCELL: usize = 8;
    #[allow(non_snake_case)]
    pub mod CELLS {
        use super::*;
        pub static mut addr: [usize; NCELL] = [0; NCELL];
        pub static mut n: usize = 0;
        // last access per cell: thread and its vector clock at that access
        pub static mut last_tid: [usize; NCELL] = [0; NCELL];
        pub static mut last_vc: [[u8; NT]; NCELL] = [[0; NT]; NCELL];
        pub static mut last_round: [usize; NCELL] = [0; NCELL];
        // thread t accessed a cell whose previous access (by another thread, executed
        // earlier) happened in a LATER round: cell contents are not round-versioned,
        // so t may be looking at a value from its future
        pub static mut future_access: [bool; NT] = [false; NT];
        pub static mut accessed: [bool; NCELL] = [false; NCELL];
        pub static mut accesses: u32 = 0;
    }

    #[repr(transparent)]
    pub struct UnsafeCell<T> {
        inner: ::std::cell::UnsafeCell<T>,
    }
    impl<T> UnsafeCell<T> {
        pub fn new(v: T) -> Self {
            UnsafeCell {
                inner: ::std::cell::UnsafeCell::new(v),
            }
        }
        pub fn get(&self) -> *mut T {
            let p = self.inner.get();
            super::point(OP_CELL, usize::MAX, Ordering::SeqCst);
            cell_access(p as usize);
            p
        }
        pub fn into_inner(self) -> T {
            self.inner.into_inner()
        }
        pub fn get_mut(&mut self) -> &mut T {
            unsafe { &mut *self.inner.get() }
        }
        /// Raw pointer without an access event (harness inspection).
        pub fn peek(&self) -> *mut T {
            self.inner.get()
        }
    }
    impl<T: Default> Default for UnsafeCell<T> {
        fn default() -> Self {
            UnsafeCell::new(T::default())
        }
    }
    impl<T> ::std::fmt::Debug for UnsafeCell<T> {
        fn fmt(&self, f: &mut ::std::fmt::Formatter) -> ::std::fmt::Result {
            f.write_str("UnsafeCell")
        }
    }
    unsafe impl<T: Send> Send for UnsafeCell<T> {}

    pub fn future_access(tid: usize) -> bool {
        unsafe { CELLS::future_access[tid] }
    }
    fn cell_access(addr: usize) {
        unsafe {
            CELLS::accesses += 1;
            if !ST::hb_on {
                return;
            }
            let mut idx = usize::MAX;
            let mut i = 0;
            while i < CELLS::n {
                if CELLS::addr[i] == addr && idx == usize::MAX {
                    idx = i;
                }
                i += 1;
            }
            if idx == usize::MAX {
                if CELLS::n >= NCELL {
                    return;
                }
                idx = CELLS::n;
                CELLS::addr[idx] = addr;
                CELLS::n += 1;
            }
            let t = ST::tid;
            let now = hb_tick();
            if CELLS::accessed[idx] && CELLS::last_tid[idx] != t && CELLS::last_round[idx] > ST::round && t < NT {
                CELLS::future_access[t] = true;
            }
            if CELLS::accessed[idx] && CELLS::last_tid[idx] != t {
                // The previous access must happen-before this one, or this one
                // before it (the threads are executed one after another, so the
                // "previous" access in execution order may be later in time).
                let prev = CELLS::last_vc[idx];
                if !hb_leq(&prev, &now) && !hb_leq(&now, &prev) {
                    // decisive event: whichever of the two accesses is later in time
                    let pr = CELLS::last_round[idx];
                    flag_at(E_RACE, if pr > ST::round { pr } else { ST::round });
                }
            }
            CELLS::accessed[idx] = true;
            CELLS::last_tid[idx] = t;
            CELLS::last_vc[idx] = now;
            CELLS::last_round[idx] = ST::round;
        }
    }
}

// ---------------------------------------------------------------------------
// mem: everything from std::mem, but integer -> fn-pointer transmutes hand out a
// trampoline whose address the solver knows, which logs the requested target
// and arguments (DESIGN §2.6 R1).
// ---------------------------------------------------------------------------
pub mod mem {
    pub use std::mem::*;
    use crate::{c_int, c_void, siginfo_t};

    #[derive(Copy, Clone)]
    pub struct PrevCall {
        pub fptr: usize,
        pub three_arg: bool,
        pub sig: c_int,
        pub info: usize,
        pub ctx: usize,
        pub stamp: u32,
    }
    pub const NPREV: usize = 8;
    pub static mut PREV_CALLS: [PrevCall; NPREV] = [PrevCall {
        fptr: 0,
        three_arg: false,
        sig: 0,
        info: 0,
        ctx: 0,
        stamp: 0,
    }; NPREV];
    pub static mut NPREV_CALLS: usize = 0;
    static mut PENDING_FPTR: usize = 0;

    fn log(three_arg: bool, sig: c_int, info: usize, ctx: usize) {
        unsafe {
            if NPREV_CALLS < NPREV {
                PREV_CALLS[NPREV_CALLS] = PrevCall {
                    fptr: PENDING_FPTR,
                    three_arg,
                    sig,
                    info,
                    ctx,
                    stamp: super::next_stamp(),
                };
            }
            NPREV_CALLS += 1;
        }
    }
    extern "C" fn tramp1(sig: c_int) {
        log(false, sig, 0, 0);
    }
    extern "C" fn tramp3(sig: c_int, info: *mut siginfo_t, ctx: *mut c_void) {
        log(true, sig, info as usize, ctx as usize);
    }

    pub trait FromWord: Sized {
        fn from_word(w: usize) -> Self;
    }
    impl FromWord for extern "C" fn(c_int) {
        fn from_word(w: usize) -> Self {
            unsafe { PENDING_FPTR = w };
            tramp1
        }
    }
    impl FromWord for extern "C" fn(c_int, *mut siginfo_t, *mut c_void) {
        fn from_word(w: usize) -> Self {
            unsafe { PENDING_FPTR = w };
            tramp3
        }
    }
    pub trait IntoWord {
        fn into_word(self) -> usize;
    }
    impl IntoWord for usize {
        fn into_word(self) -> usize {
            self
        }
    }
    pub unsafe fn transmute<T: IntoWord, U: FromWord>(t: T) -> U {
        U::from_word(t.into_word())
    }
}

// ---------------------------------------------------------------------------
// maps: fixed-capacity stand-ins for HashMap / BTreeMap (DESIGN §2.5)
// ---------------------------------------------------------------------------
pub mod maps {
    /// capacities: signals map 2 entries, actions map 3 entries (harness bounds)
    pub const CAP: usize = 3;
    pub const HCAP: usize = 2;

    fn overflow() -> ! {
        super::flag(super::E_MAPCAP);
        super::assume(false);
        loop {}
    }

    /// Keys and length are kept apart from the values so that look-ups never
    /// read the (niche-encoded) discriminant of a value slot: with everything
    /// concrete CBMC folds every look-up, and no destructor of a slot that is
    /// known to be empty is ever explored.
    /// No unions (MaybeUninit) inside: CBMC copies unions bytewise and then can
    /// no longer fold `n` after a move.  Empty value slots hold `None` and are
    /// never inspected or dropped (ManuallyDrop + explicit length).
    pub struct FixedMap<K, V, const N: usize> {
        pub n: usize,
        pub k: [Option<K>; N],
        pub v: ::std::mem::ManuallyDrop<[Option<Box<V>>; N]>,
    }
    impl<K, V, const N: usize> Drop for FixedMap<K, V, N> {
        fn drop(&mut self) {
            let mut i = 0;
            while i < N {
                if i < self.n {
                    unsafe { ::std::ptr::drop_in_place(&mut self.v[i]) };
                }
                i += 1;
            }
            // LR: the memory image of a dropped snapshot stays as it was (frees are
            // virtualised: a reader earlier in time but later in execution order
            // must still see what it would have seen)
            if !super::is_lr() {
                self.n = 0;
            }
        }
    }
    impl<K: Copy, V: Clone, const N: usize> Clone for FixedMap<K, V, N> {
        fn clone(&self) -> Self {
            let mut m = FixedMap {
                n: 0,
                k: self.k,
                v: ::std::mem::ManuallyDrop::new(::std::array::from_fn(|_| None)),
            };
            let mut i = 0;
            while i < N {
                if i < self.n {
                    let c = self.v[i].as_ref().map(|x| Box::new((**x).clone()));
                    unsafe { ::std::ptr::write(&mut m.v[i], c) };
                }
                i += 1;
            }
            m.n = self.n;
            m
        }
    }

    // All array accesses below use the (concrete) loop counter as index and put
    // the data-dependent part into the guard: a write at a symbolic offset into
    // a heap object costs CBMC a byte-level multiplexer over the whole object.
    impl<K: Ord + Copy, V, const N: usize> FixedMap<K, V, N> {
        pub fn new() -> Self {
            FixedMap {
                n: 0,
                k: [None; N],
                v: ::std::mem::ManuallyDrop::new(::std::array::from_fn(|_| None)),
            }
        }
        pub fn len(&self) -> usize {
            self.n
        }
        pub fn is_empty(&self) -> bool {
            self.n == 0
        }
        fn key_is(&self, i: usize, k: &K) -> bool {
            match self.k[i] {
                Some(ref kk) => *kk == *k,
                None => false,
            }
        }
        pub fn get(&self, k: &K) -> Option<&V> {
            let mut i = 0;
            while i < N {
                if i < self.n && self.key_is(i, k) {
                    return self.v[i].as_deref();
                }
                i += 1;
            }
            None
        }
        pub fn get_mut(&mut self, k: &K) -> Option<&mut V> {
            let mut i = 0;
            while i < N {
                if i < self.n && self.key_is(i, k) {
                    return self.v[i].as_deref_mut();
                }
                i += 1;
            }
            None
        }
        pub fn contains_key(&self, k: &K) -> bool {
            self.get(k).is_some()
        }
        /// Sorted insert (entries are contiguous and in ascending key order).
        pub fn insert(&mut self, k: K, v: V) -> Option<V> {
            // replace?
            let mut i = 0;
            while i < N {
                if i < self.n && self.key_is(i, &k) {
                    let old = unsafe { ::std::ptr::read(&self.v[i]) };
                    unsafe { ::std::ptr::write(&mut self.v[i], Some(Box::new(v))) };
                    return old.map(|b| *b);
                }
                i += 1;
            }
            let n = self.n;
            if n >= N {
                overflow();
            }
            // number of existing keys smaller than k = insertion position
            let mut at = 0;
            let mut i = 0;
            while i < N {
                if i < n {
                    if let Some(ref kk) = self.k[i] {
                        if *kk < k {
                            at += 1;
                        }
                    }
                }
                i += 1;
            }
            // shift right, highest first; every index is the loop counter
            let mut j = N;
            while j > 1 {
                j -= 1;
                // move j-1 -> j when at <= j-1 < n
                if j <= n && j > at {
                    unsafe {
                        let x = ::std::ptr::read(&self.v[j - 1]);
                        ::std::ptr::write(&mut self.v[j], x);
                    }
                    self.k[j] = self.k[j - 1];
                }
            }
            let mut v = Some(Box::new(v));
            let mut i = 0;
            while i < N {
                if i == at {
                    unsafe { ::std::ptr::write(&mut self.v[i], v.take()) };
                    self.k[i] = Some(k);
                }
                i += 1;
            }
            ::std::mem::forget(v);
            self.n = n + 1;
            None
        }
        pub fn remove(&mut self, k: &K) -> Option<V> {
            let mut found = N;
            let mut i = 0;
            while i < N {
                if i < self.n && found == N && self.key_is(i, k) {
                    found = i;
                }
                i += 1;
            }
            if found == N {
                return None;
            }
            let mut old = None;
            let mut i = 0;
            while i < N {
                if i == found {
                    old = unsafe { ::std::ptr::read(&self.v[i]) };
                }
                if i >= found && i + 1 < N && i + 1 < self.n {
                    unsafe {
                        let x = ::std::ptr::read(&self.v[i + 1]);
                        ::std::ptr::write(&mut self.v[i], x);
                    }
                    self.k[i] = self.k[i + 1];
                }
                if i + 1 == self.n {
                    unsafe { ::std::ptr::write(&mut self.v[i], None) };
                    self.k[i] = None;
                }
                i += 1;
            }
            self.n -= 1;
            old.map(|b| *b)
        }
        pub fn clear(&mut self) {
            let mut i = 0;
            while i < N {
                if i < self.n {
                    unsafe {
                        ::std::ptr::drop_in_place(&mut self.v[i]);
                        ::std::ptr::write(&mut self.v[i], None);
                    }
                }
                i += 1;
            }
            self.n = 0;
        }
        pub fn iter(&self) -> Iter<'_, K, V, N> {
            Iter {
                m: self,
                front: 0,
                back: self.n,
            }
        }
        pub fn values(&self) -> Values<'_, K, V, N> {
            Values { it: self.iter() }
        }
        pub fn keys(&self) -> Keys<'_, K, V, N> {
            Keys { it: self.iter() }
        }
        pub fn first_key_value(&self) -> Option<(&K, &V)> {
            if self.n == 0 {
                None
            } else {
                match (&self.k[0], &self.v[0]) {
                    (Some(k), Some(v)) => Some((k, &**v)),
                    _ => None,
                }
            }
        }
        pub fn entry(&mut self, k: K) -> Entry<'_, K, V, N> {
            let mut i = 0;
            while i < N {
                if i < self.n && self.key_is(i, &k) {
                    return Entry::Occupied(OccupiedEntry { m: self, i });
                }
                i += 1;
            }
            Entry::Vacant(VacantEntry { m: self, k })
        }
    }
    impl<K: Ord + Copy, V, const N: usize> Default for FixedMap<K, V, N> {
        fn default() -> Self {
            Self::new()
        }
    }

    pub struct Iter<'a, K: 'a, V: 'a, const N: usize> {
        m: &'a FixedMap<K, V, N>,
        front: usize,
        back: usize,
    }
    impl<'a, K, V, const N: usize> Iterator for Iter<'a, K, V, N> {
        type Item = (&'a K, &'a V);
        fn next(&mut self) -> Option<Self::Item> {
            if self.front < self.back {
                let f = self.front;
                self.front += 1;
                let mut i = 0;
                while i < N {
                    if i == f {
                        return match (&self.m.k[i], &self.m.v[i]) {
                            (Some(k), Some(v)) => Some((k, &**v)),
                            _ => None,
                        };
                    }
                    i += 1;
                }
                None
            } else {
                None
            }
        }
    }
    impl<'a, K, V, const N: usize> DoubleEndedIterator for Iter<'a, K, V, N> {
        fn next_back(&mut self) -> Option<Self::Item> {
            if self.front < self.back {
                self.back -= 1;
                let b = self.back;
                let mut i = 0;
                while i < N {
                    if i == b {
                        return match (&self.m.k[i], &self.m.v[i]) {
                            (Some(k), Some(v)) => Some((k, &**v)),
                            _ => None,
                        };
                    }
                    i += 1;
                }
                None
            } else {
                None
            }
        }
    }
    pub struct Values<'a, K: 'a, V: 'a, const N: usize> {
        it: Iter<'a, K, V, N>,
    }
    impl<'a, K, V, const N: usize> Iterator for Values<'a, K, V, N> {
        type Item = &'a V;
        fn next(&mut self) -> Option<&'a V> {
            self.it.next().map(|kv| kv.1)
        }
    }
    impl<'a, K, V, const N: usize> DoubleEndedIterator for Values<'a, K, V, N> {
        fn next_back(&mut self) -> Option<&'a V> {
            self.it.next_back().map(|kv| kv.1)
        }
    }
    pub struct Keys<'a, K: 'a, V: 'a, const N: usize> {
        it: Iter<'a, K, V, N>,
    }
    impl<'a, K, V, const N: usize> Iterator for Keys<'a, K, V, N> {
        type Item = &'a K;
        fn next(&mut self) -> Option<&'a K> {
            self.it.next().map(|kv| kv.0)
        }
    }
    impl<'a, K, V, const N: usize> DoubleEndedIterator for Keys<'a, K, V, N> {
        fn next_back(&mut self) -> Option<&'a K> {
            self.it.next_back().map(|kv| kv.0)
        }
    }
    impl<'a, K: Ord + Copy, V, const N: usize> IntoIterator for &'a FixedMap<K, V, N> {
        type Item = (&'a K, &'a V);
        type IntoIter = Iter<'a, K, V, N>;
        fn into_iter(self) -> Iter<'a, K, V, N> {
            self.iter()
        }
    }

    pub enum Entry<'a, K: 'a, V: 'a, const N: usize> {
        Occupied(OccupiedEntry<'a, K, V, N>),
        Vacant(VacantEntry<'a, K, V, N>),
    }
    pub struct OccupiedEntry<'a, K: 'a, V: 'a, const N: usize> {
        m: &'a mut FixedMap<K, V, N>,
        i: usize,
    }
    pub struct VacantEntry<'a, K: 'a, V: 'a, const N: usize> {
        m: &'a mut FixedMap<K, V, N>,
        k: K,
    }
    impl<'a, K: Ord + Copy, V, const N: usize> OccupiedEntry<'a, K, V, N> {
        pub fn get(&self) -> &V {
            match self.m.v[self.i] {
                Some(ref v) => &**v,
                None => overflow(),
            }
        }
        pub fn get_mut(&mut self) -> &mut V {
            match self.m.v[self.i] {
                Some(ref mut v) => &mut **v,
                None => overflow(),
            }
        }
        pub fn into_mut(self) -> &'a mut V {
            match self.m.v[self.i] {
                Some(ref mut v) => &mut **v,
                None => overflow(),
            }
        }
        pub fn insert(&mut self, v: V) -> V {
            ::std::mem::replace(self.get_mut(), v)
        }
        pub fn remove(self) -> V {
            let k = match self.m.k[self.i] {
                Some(k) => k,
                None => overflow(),
            };
            self.m.remove(&k).unwrap()
        }
    }
    impl<'a, K: Ord + Copy, V, const N: usize> VacantEntry<'a, K, V, N> {
        pub fn insert(self, v: V) -> &'a mut V {
            let k = self.k;
            self.m.insert(k, v);
            self.m.get_mut(&k).unwrap()
        }
    }
    impl<'a, K: Ord + Copy, V, const N: usize> Entry<'a, K, V, N> {
        pub fn or_insert(self, v: V) -> &'a mut V {
            match self {
                Entry::Occupied(o) => o.into_mut(),
                Entry::Vacant(x) => x.insert(v),
            }
        }
        pub fn or_insert_with<F: FnOnce() -> V>(self, f: F) -> &'a mut V {
            match self {
                Entry::Occupied(o) => o.into_mut(),
                Entry::Vacant(x) => x.insert(f()),
            }
        }
    }

    pub type HashMap<K, V> = FixedMap<K, V, HCAP>;
    pub type BTreeMap<K, V> = FixedMap<K, V, CAP>;
    pub mod hash_map {
        pub use super::Entry;
        pub use super::HashMap;
    }
    pub mod btree_map {
        pub use super::BTreeMap;
        pub use super::Entry;
    }
}

// ---------------------------------------------------------------------------
// sync: Arc is std's; Once is a plain flag (std's futex-based Once drags the
// time / io::Error machinery into every registry harness)
// ---------------------------------------------------------------------------
pub mod sync {
    pub use super::{Mutex, MutexGuard, PoisonError};
    use std::marker::{PhantomData, Unsize};
    use std::ops::{CoerceUnsized, Deref};
    use std::ptr::NonNull;

    /// Reference-counted pointer with std::sync::Arc's interface, used by the
    /// registry under `sighook_verif`.  std's Arc is trusted, and its drop path
    /// (drop_slow -> virtual drop_in_place::<dyn Fn> -> Weak -> dealloc) is what
    /// makes CBMC explode whenever it cannot fold a length after a snapshot was
    /// copied.  Here clone/drop are a counter; when the count reaches zero the
    /// *release* is recorded as a ghost event (who, inside a delivery or not)
    /// and the payload is leaked, never destroyed.
    pub const NARC: usize = 12;
    #[allow(non_snake_case)]
    pub mod ARCS {
        use super::NARC;
        pub static mut next: usize = 0;
        pub static mut released: [u8; NARC] = [0; NARC];
        pub static mut released_by: [usize; NARC] = [usize::MAX; NARC];
        pub static mut released_at: [usize; NARC] = [usize::MAX; NARC];
        pub static mut released_in_delivery: [bool; NARC] = [false; NARC];
        pub static mut used_after_release: [bool; NARC] = [false; NARC];
        /// harness switch: run the payload's destructor for real when the count reaches zero
        pub static mut real_drop: bool = false;
    }
    pub struct ArcInner<T: ?Sized> {
        strong: ::std::cell::Cell<usize>,
        id: usize,
        data: T,
    }
    pub struct Arc<T: ?Sized> {
        ptr: NonNull<ArcInner<T>>,
        _p: PhantomData<ArcInner<T>>,
    }
    unsafe impl<T: ?Sized + Sync + Send> Send for Arc<T> {}
    unsafe impl<T: ?Sized + Sync + Send> Sync for Arc<T> {}
    impl<T: ?Sized + Unsize<U>, U: ?Sized> CoerceUnsized<Arc<U>> for Arc<T> {}

    /// Signature of registry actions.  When the payload of a new Arc is such an
    /// action, a `&dyn` reference to it is remembered per Arc id *at creation*,
    /// where the concrete closure type (hence the vtable) is statically known:
    /// harnesses that invoke an action directly get a call CBMC can resolve,
    /// instead of a fat pointer read back from the heap (symbolic vtable =
    /// fan-out over every closure and drop glue of the program).
    pub type ActionFn<'a> = dyn Fn(&crate::siginfo_t) + Send + Sync + 'a;
    pub trait MaybeAction {
        fn as_action<'a>(&'a self) -> Option<&'a ActionFn<'a>>;
    }
    impl<T> MaybeAction for T {
        default fn as_action<'a>(&'a self) -> Option<&'a ActionFn<'a>> {
            None
        }
    }
    impl<T: Fn(&crate::siginfo_t) + Send + Sync> MaybeAction for T {
        fn as_action<'a>(&'a self) -> Option<&'a ActionFn<'a>> {
            Some(self)
        }
    }
    // individual statics (an array of fat references trips an unsupported construct in Kani)
    pub static mut ACTION0: Option<&'static ActionFn<'static>> = None;
    pub static mut ACTION1: Option<&'static ActionFn<'static>> = None;
    pub static mut ACTION2: Option<&'static ActionFn<'static>> = None;
    pub static mut ACTION3: Option<&'static ActionFn<'static>> = None;
    pub static mut ACTION4: Option<&'static ActionFn<'static>> = None;
    pub static mut ACTION5: Option<&'static ActionFn<'static>> = None;
    fn remember_action(id: usize, a: Option<&'static ActionFn<'static>>) {
        unsafe {
            if id == 0 {
                ACTION0 = a;
            } else if id == 1 {
                ACTION1 = a;
            } else if id == 2 {
                ACTION2 = a;
            } else if id == 3 {
                ACTION3 = a;
            } else if id == 4 {
                ACTION4 = a;
            } else if id == 5 {
                ACTION5 = a;
            }
        }
    }
    /// The action stored in the Arc with this id (ids are handed out in creation order).
    pub fn action_by_arc_id(id: usize) -> Option<&'static ActionFn<'static>> {
        unsafe {
            if id == 0 {
                ACTION0
            } else if id == 1 {
                ACTION1
            } else if id == 2 {
                ACTION2
            } else if id == 3 {
                ACTION3
            } else if id == 4 {
                ACTION4
            } else if id == 5 {
                ACTION5
            } else {
                None
            }
        }
    }
    pub fn arcs_created() -> usize {
        unsafe { ARCS::next }
    }

    impl<T> Arc<T> {
        pub fn new(data: T) -> Arc<T> {
            let id = unsafe {
                let i = ARCS::next;
                ARCS::next += 1;
                i
            };
            let b = Box::new(ArcInner {
                strong: ::std::cell::Cell::new(1),
                id,
                data,
            });
            let raw = Box::into_raw(b);
            unsafe {
                if id < NARC {
                    // the allocation is never freed, so the reference is good for ever
                    let r: &T = &(*raw).data;
                    match r.as_action() {
                        Some(a) => remember_action(id, Some(::std::mem::transmute::<&ActionFn<'_>, &'static ActionFn<'static>>(a))),
                        None => {}
                    }
                }
            }
            Arc {
                ptr: unsafe { NonNull::new_unchecked(raw) },
                _p: PhantomData,
            }
        }
    }
    impl<T: ?Sized> Arc<T> {
        fn inner(&self) -> &ArcInner<T> {
            unsafe { self.ptr.as_ref() }
        }
        pub fn strong_count(this: &Self) -> usize {
            this.inner().strong.get()
        }
        pub fn ptr_eq(a: &Self, b: &Self) -> bool {
            a.inner().id == b.inner().id
        }
        pub fn verif_id(this: &Self) -> usize {
            this.inner().id
        }
        pub fn as_ptr(this: &Self) -> *const T {
            &this.inner().data
        }
    }
    impl<T: ?Sized> Clone for Arc<T> {
        fn clone(&self) -> Arc<T> {
            let i = self.inner();
            i.strong.set(i.strong.get() + 1);
            Arc {
                ptr: self.ptr,
                _p: PhantomData,
            }
        }
    }
    impl<T: ?Sized> Drop for Arc<T> {
        fn drop(&mut self) {
            let i = self.inner();
            let c = i.strong.get();
            i.strong.set(c.wrapping_sub(1));
            if c == 1 {
                unsafe {
                    if i.id < NARC {
                        ARCS::released[i.id] += 1;
                        ARCS::released_by[i.id] = super::ST::tid;
                        ARCS::released_at[i.id] = super::now();
                        ARCS::released_in_delivery[i.id] = super::ST::delivery_depth > 0;
                    }
                    if ARCS::real_drop {
                        // the payload goes; the (small) ArcInner allocation itself is leaked
                        ::std::ptr::drop_in_place(&mut (*self.ptr.as_ptr()).data);
                    }
                }
            }
        }
    }
    impl<T: ?Sized> Deref for Arc<T> {
        type Target = T;
        fn deref(&self) -> &T {
            let i = self.inner();
            if i.strong.get() == 0 && i.id < NARC {
                unsafe { ARCS::used_after_release[i.id] = true };
            }
            &i.data
        }
    }
    impl<T> From<T> for Arc<T> {
        fn from(t: T) -> Arc<T> {
            Arc::new(t)
        }
    }
    impl<T: ?Sized> ::std::fmt::Debug for Arc<T> {
        fn fmt(&self, f: &mut ::std::fmt::Formatter) -> ::std::fmt::Result {
            f.write_str("Arc")
        }
    }
    impl<T: ?Sized> AsRef<T> for Arc<T> {
        fn as_ref(&self) -> &T {
            &**self
        }
    }
    impl<T: ?Sized> ::std::borrow::Borrow<T> for Arc<T> {
        fn borrow(&self) -> &T {
            &**self
        }
    }

    pub struct Once {
        done: ::std::cell::UnsafeCell<bool>,
    }
    unsafe impl Sync for Once {}
    pub const ONCE_INIT: Once = Once {
        done: ::std::cell::UnsafeCell::new(false),
    };
    impl Once {
        pub const fn new() -> Once {
            Once {
                done: ::std::cell::UnsafeCell::new(false),
            }
        }
        pub fn call_once<F: FnOnce()>(&self, f: F) {
            unsafe {
                if !*self.done.get() {
                    f();
                    *self.done.get() = true;
                }
            }
        }
        pub fn is_completed(&self) -> bool {
            unsafe { *self.done.get() }
        }
        /// Harness: forget that the initialisation ran.
        pub fn verif_reset(&self) {
            unsafe { *self.done.get() = false }
        }
    }
}

// ---------------------------------------------------------------------------
// net: stand-in for std::os::unix::net::UnixStream over the descriptor model
// (iterator/mod.rs builds its self-pipe from UnixStream::pair())
// ---------------------------------------------------------------------------
pub mod net {
    use crate::model::{self, FdKind, K};
    use std::io::{Error, Read, Result};
    use std::os::unix::io::{AsRawFd, IntoRawFd, RawFd};

    #[derive(Debug)]
    pub struct UnixStream {
        fd: RawFd,
    }
    /// model descriptors used by pair(): read end, write end (they share one queue)
    pub const PAIR_READ: RawFd = 4;
    pub const PAIR_WRITE: RawFd = 5;
    pub const PAIR_CAP: u32 = 4;
    impl UnixStream {
        pub fn pair() -> Result<(UnixStream, UnixStream)> {
            unsafe {
                model::open_fd(PAIR_READ as usize, FdKind::Stream, PAIR_CAP, 0, false);
                model::open_fd(PAIR_WRITE as usize, FdKind::Stream, PAIR_CAP, 0, false);
                // bytes written to PAIR_WRITE are read from PAIR_READ
                model::ALIAS[PAIR_READ as usize] = PAIR_WRITE as usize;
            }
            Ok((UnixStream { fd: PAIR_READ }, UnixStream { fd: PAIR_WRITE }))
        }
        pub fn set_nonblocking(&self, nb: bool) -> Result<()> {
            unsafe { K::fds[self.fd as usize].nonblock = nb };
            Ok(())
        }
    }
    impl Read for UnixStream {
        fn read(&mut self, buf: &mut [u8]) -> Result<usize> {
            let n = unsafe { crate::read(self.fd, buf.as_mut_ptr() as *mut crate::c_void, buf.len()) };
            // A failed read is reported as "0 bytes" instead of an io::Error: building
            // one drags std's OS-error function table (error_string, formatting) into
            // the encoding; harnesses use blocking descriptors, where the only
            // failure is EBADF on a closed descriptor.
            if n < 0 {
                Ok(0)
            } else {
                Ok(n as usize)
            }
        }
    }
    impl<'a> Read for &'a UnixStream {
        fn read(&mut self, buf: &mut [u8]) -> Result<usize> {
            let n = unsafe { crate::read(self.fd, buf.as_mut_ptr() as *mut crate::c_void, buf.len()) };
            // A failed read is reported as "0 bytes" instead of an io::Error: building
            // one drags std's OS-error function table (error_string, formatting) into
            // the encoding; harnesses use blocking descriptors, where the only
            // failure is EBADF on a closed descriptor.
            if n < 0 {
                Ok(0)
            } else {
                Ok(n as usize)
            }
        }
    }
    impl AsRawFd for UnixStream {
        fn as_raw_fd(&self) -> RawFd {
            self.fd
        }
    }
    impl IntoRawFd for UnixStream {
        fn into_raw_fd(self) -> RawFd {
            let fd = self.fd;
            ::std::mem::forget(self);
            fd
        }
    }
    impl Drop for UnixStream {
        fn drop(&mut self) {
            unsafe {
                crate::close(self.fd);
            }
        }
    }
}
