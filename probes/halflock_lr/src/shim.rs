//! Lal-Reps style round-indexed shared memory (probe).
#![allow(static_mut_refs)]
pub const K: usize = 3; // rounds
pub const NV: usize = 8; // shared vars
pub const NB: usize = 4; // boxes

pub static mut MEM: [[usize; NV]; K] = [[0; NV]; K];
pub static mut GUESS: [[usize; NV]; K] = [[0; NV]; K];
pub static mut NVARS: usize = 0;
pub static mut ROUND: usize = 0;
pub static mut TID: usize = 0;
pub static mut BOXES: [usize; NB] = [0; NB];
pub static mut NBOX: usize = 0;
pub static mut FREED: [usize; NB] = [usize::MAX; NB]; // round of free
pub static mut ERR: bool = false;
pub static mut SPINS: usize = 0;
pub const SPIN_BOUND: usize = K + 1;

pub fn any_usize() -> usize {
    #[cfg(kani)]
    { kani::any() }
    #[cfg(not(kani))]
    { 0 }
}
pub fn any_bool() -> bool {
    #[cfg(kani)]
    { kani::any() }
    #[cfg(not(kani))]
    { false }
}
pub fn assume(c: bool) {
    #[cfg(kani)]
    kani::assume(c);
    #[cfg(not(kani))]
    assert!(c);
}

pub unsafe fn init_guesses() {
    for k in 1..K {
        for v in 0..NV {
            let g = any_usize();
            GUESS[k][v] = g;
            MEM[k][v] = g;
        }
    }
}
pub unsafe fn thread_start(tid: usize) {
    TID = tid;
    ROUND = 0;
    SPINS = 0;
}
pub unsafe fn sched() {
    let r = any_usize();
    assume(r >= ROUND && r < K);
    ROUND = r;
}
unsafe fn new_var(init: usize) -> usize {
    let id = NVARS;
    NVARS += 1;
    assert!(id < NV);
    MEM[0][id] = init;
    id
}
pub unsafe fn box_idx(addr: usize) -> usize {
    let mut i = 0;
    while i < NB {
        if i < NBOX && BOXES[i] == addr { return i; }
        i += 1;
    }
    assert!(NBOX < NB);
    BOXES[NBOX] = addr;
    NBOX += 1;
    NBOX - 1
}
pub unsafe fn on_free(addr: usize) {
    let i = box_idx(addr);
    if FREED[i] != usize::MAX { ERR = true; } // double free
    FREED[i] = ROUND;
}
pub unsafe fn touch(addr: usize) {
    sched();
    let i = box_idx(addr);
    if FREED[i] <= ROUND { ERR = true; }
}
pub unsafe fn consistent() -> bool {
    let mut ok = true;
    for k in 0..K - 1 {
        for v in 0..NV {
            if v < NVARS && MEM[k][v] != GUESS[k + 1][v] { ok = false; }
        }
    }
    ok
}

pub mod atomic {
    use super::*;
    pub use std::sync::atomic::Ordering;
    pub struct AtomicUsize(usize);
    impl AtomicUsize {
        pub fn new(v: usize) -> Self { unsafe { AtomicUsize(new_var(v)) } }
        pub fn load(&self, _: Ordering) -> usize { unsafe { sched(); MEM[ROUND][self.0] } }
        pub fn fetch_add(&self, d: usize, _: Ordering) -> usize { unsafe { sched(); let o = MEM[ROUND][self.0]; MEM[ROUND][self.0] = o.wrapping_add(d); o } }
        pub fn fetch_sub(&self, d: usize, _: Ordering) -> usize { unsafe { sched(); let o = MEM[ROUND][self.0]; MEM[ROUND][self.0] = o.wrapping_sub(d); o } }
    }
    pub struct AtomicPtr<T>(usize, std::marker::PhantomData<*mut T>);
    unsafe impl<T> Send for AtomicPtr<T> {}
    unsafe impl<T> Sync for AtomicPtr<T> {}
    impl<T> AtomicPtr<T> {
        pub fn new(p: *mut T) -> Self { unsafe { let i = box_idx(p as usize); AtomicPtr(new_var(i), std::marker::PhantomData) } }
        pub fn load(&self, _: Ordering) -> *mut T { unsafe { sched(); let i = MEM[ROUND][self.0]; assume(i < NBOX); BOXES[i] as *mut T } }
        pub fn swap(&self, p: *mut T, _: Ordering) -> *mut T { unsafe { sched(); let n = box_idx(p as usize); let i = MEM[ROUND][self.0]; assume(i < NBOX); MEM[ROUND][self.0] = n; BOXES[i] as *mut T } }
    }
    pub fn spin_loop_hint() { unsafe { SPINS += 1; assume(SPINS < SPIN_BOUND); } }
}
pub mod thread {
    use super::*;
    pub fn yield_now() { unsafe { SPINS += 1; assume(SPINS < SPIN_BOUND); } }
}
pub struct Mutex<T>(usize, std::cell::UnsafeCell<T>);
unsafe impl<T> Sync for Mutex<T> {}
pub struct MutexGuard<'a, T>(&'a Mutex<T>);
pub struct PoisonError<G>(G);
impl<G> PoisonError<G> { pub fn into_inner(self) -> G { self.0 } }
impl<T> Mutex<T> {
    pub fn new(v: T) -> Self { unsafe { Mutex(new_var(0), std::cell::UnsafeCell::new(v)) } }
    pub fn lock(&self) -> Result<MutexGuard<'_, T>, PoisonError<MutexGuard<'_, T>>> {
        unsafe { sched(); assume(MEM[ROUND][self.0] == 0); MEM[ROUND][self.0] = 1; }
        Ok(MutexGuard(self))
    }
}
impl<'a, T> Drop for MutexGuard<'a, T> {
    fn drop(&mut self) { unsafe { sched(); MEM[ROUND][(self.0).0] = 0; } }
}
