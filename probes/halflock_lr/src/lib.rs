#![allow(dead_code, deprecated, static_mut_refs)]
extern crate libc;
extern crate alloc;
pub mod shim;
mod half_lock;

use half_lock::HalfLock;

pub struct Canary(u8);
impl Drop for Canary {
    fn drop(&mut self) { unsafe { shim::on_free(self as *const _ as usize) } }
}

fn reader(l: &HalfLock<Canary>, tid: usize) {
    unsafe { shim::thread_start(tid) };
    let g = l.read();
    let a = &*g as *const Canary as usize;
    unsafe { shim::touch(a) };
    unsafe { shim::touch(a) };
    drop(g);
}
fn writer(l: &HalfLock<Canary>, tid: usize, v: u8) {
    unsafe { shim::thread_start(tid) };
    let mut w = l.write();
    w.store(Canary(v));
    drop(w);
}

#[cfg(kani)]
unsafe fn noop_dealloc(_p: std::ptr::NonNull<u8>, _l: std::alloc::Layout) {}
#[cfg(kani)]
#[kani::proof]
#[kani::stub(alloc::alloc::dealloc_nonnull, noop_dealloc)]
#[kani::unwind(10)]
fn lr_w1_r2() {
    let l = HalfLock::new(Canary(0));
    unsafe { shim::init_guesses() };
    writer(&l, 0, 1);
    writer(&l, 0, 2); // same thread: second store continues... (simplification: restarts at round 0)
    reader(&l, 1);
    reader(&l, 2);
    unsafe {
        kani::assume(shim::consistent());
        assert!(!shim::ERR);
    }
    std::mem::forget(l);
}
