#!/usr/bin/env python3
"""Generate MANIFEST.json from lib/catalogue.py + lib/propinfo.py (claimed properties,
levels, not_applicable).  Run after changing the catalogue."""
import json, os, sys, subprocess
V = os.path.dirname(os.path.dirname(os.path.abspath(__file__)))
sys.path.insert(0, os.path.join(V, "lib"))
from catalogue import CATALOGUE
from propinfo import INFO, NOT_APPLICABLE, HOOK_COMMITS

checks = []
for pid in sorted(CATALOGUE):
    if pid in NOT_APPLICABLE or not CATALOGUE[pid]:
        continue
    i = INFO[pid]
    checks.append({
        "property_id": pid,
        "quick_cmd": "./check %s --tier quick" % pid,
        "thorough_cmd": "./check %s --tier thorough" % pid,
        "evidence_file": "/verif/evidence/%s.json" % pid,
        "replay_cmd_template": "./check %s --replay {path}" % pid,
        "engine": "kani-cbmc",
        "level_claimed": {"category": "model_checking", "text": i["level"], "design_ref": "DESIGN.md §4 " + pid},
        "level_note": i["note"],
        "technique": i["technique"],
    })
m = {
    "version": 1,
    "setup_cmd": "./check --setup",
    "hooks": {
        "guard": "sighook_verif",
        "enable": "RUSTFLAGS=\"--cfg sighook_verif\" (set by ./check for cargo kani); the harness workspace /verif/kani replaces the libc crate by /verif/vlibc via [patch.crates-io] (kernel model + scheduler shim); /verif/kani17 (C17) builds without the guard; when the instrumented build does not compile against a changed /repo, ./check retries with the additional --cfg sighook_verif_nostate, which only affects /verif/shim/registry_api.rs (accessors naming private fields of SignalData become a marker panic)",
        "baseline_off_cmd": "cd /repo && cargo test --workspace --no-fail-fast --offline",
        "source_commits": HOOK_COMMITS,
        "add_only": True,
    },
    "engines": [{
        "name": "kani-cbmc", "path": "/verif/check",
        "serves_properties": [c["property_id"] for c in checks],
        "kind_free_text": "Kani 0.68 / CBMC 6.11 (CaDiCaL) bounded model checking of the real Rust (and C) sources compiled from /repo's working tree; Lal-Reps K-round sequentialisation for thread interleavings, nested-call mode for signal-handler arrival points, nondeterministic kernel model for libc",
    }],
    "checks": checks,
    "not_applicable": [{"property_id": p, "reason": r} for p, r in sorted(NOT_APPLICABLE.items())],
    "notes": "Every verdict is bounded: it holds for all values inside the bounds listed in the evidence file and says nothing outside them. Exit 2 of a check means inconclusive (timeout, memory, unwinding assertion, unsatisfied reachability witness, counterexample that does not replay natively) and is never reported as VIOLATION.",
}
json.dump(m, open(os.path.join(V, "MANIFEST.json"), "w"), indent=1)
print("wrote MANIFEST.json with", len(checks), "checks,", len(m["not_applicable"]), "not applicable")
