#!/bin/bash
# run_all.sh <tier> [ids...]: run the checks one after the other, summary to stdout
tier=${1:-quick}; shift
ids=${@:-C17 C06 C16 C01 C18 C13 C15 C05 C02 C04 C07 C14 C12 C11 C09 C10 C03 C08}
cd /verif
for id in $ids; do
  s=$(date +%s)
  ./check $id --tier $tier > .logs/run_$id.$tier.out 2>&1
  rc=$?
  e=$(date +%s)
  echo "$id rc=$rc wall=$((e-s))s $(grep -E '^(OK|VIOLATION|INCONCLUSIVE|KNOWN-FINDING)' .logs/run_$id.$tier.out | head -3 | tr '\n' ' ' | cut -c1-300)"
done
