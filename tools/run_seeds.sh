#!/bin/bash
# run_seeds.sh <seed-id>:<check ids,comma separated> ... : apply each seeded patch to /repo,
# run the named checks (quick tier), undo the patch, append the outcome to seeded/RESULTS.md.
# /repo must be clean and no other check may be running.
cd /verif
for spec in "$@"; do
  seed=${spec%%:*}; checks=${spec#*:}
  git -C /repo status --short | grep -q . && { echo "/repo not clean"; exit 2; }
  git -C /repo apply /verif/seeded/$seed/patch.diff || { echo "$seed: patch does not apply" | tee -a seeded/RESULTS.md; continue; }
  touch /repo/build.rs
  for c in ${checks//,/ }; do
    s=$(date +%s)
    VERIF_EVIDENCE=/verif/.logs/seed/evidence VERIF_TARGET=/verif/.target/seed VERIF_LOGS=/verif/.logs/seed ./check $c --tier ${TIER:-quick} > .logs/seed_${seed}_$c.out 2>&1
    rc=$?
    e=$(date +%s)
    line="- seed $seed vs check $c: exit $rc ($((e-s)) s) $(grep -E '^(VIOLATION|INCONCLUSIVE|OK|UNREPLAYED)|^  failed:' .logs/seed_${seed}_$c.out | head -3 | tr '\n' ' ' | cut -c1-400)"
    echo "$line" | tee -a seeded/RESULTS.md
  done
  git -C /repo checkout -- . ; touch /repo/build.rs
done
