#!/usr/bin/env python3
"""seed_table.py: summarise seeded/RESULTS.md (append-only log of tools/run_seeds.sh; the
latest line per (seed, check) wins) into a markdown table: seeded change -> which check
caught it (exit 1 = VIOLATION, natively replayed), with the failing assertion."""
import json, os, re, sys
root = "/verif/seeded"
res = {}
for line in open(os.path.join(root, "RESULTS.md")):
    m = re.match(r"- seed (\S+) vs check (\S+): exit (\d+) \((\d+) s\)\s*(.*)", line)
    if not m:
        continue
    seed, chk, rc, secs, rest = m.groups()
    res[(seed, chk)] = (int(rc), int(secs), rest)
seeds = sorted({s for s, _ in res})
print("| seeded change | what it does | check(s) run | outcome |")
print("|---|---|---|---|")
for s in seeds:
    try:
        summ = json.load(open(os.path.join(root, s, "meta.json")))["summary"]
    except Exception:
        summ = ""
    summ = " ".join(summ.split())
    short = summ[:200] + ("…" if len(summ) > 200 else "")
    short = short.replace("|", "/")
    outs = []
    for (ss, chk), (rc, secs, rest) in sorted(res.items()):
        if ss != s:
            continue
        if rc == 1:
            h = re.search(r"replay=/verif/replays/\w+-(\w+?)-\d{8}", rest)
            f = re.search(r"failed: (.*?) @", rest)
            outs.append("%s: **caught** (%s: \"%s\"; %d s incl. native replay)" % (chk, h.group(1) if h else "?", (f.group(1) if f else "?")[:110].replace("|", "/"), secs))
        elif rc == 0:
            outs.append("%s: not caught" % chk)
        else:
            why = re.sub(r"INCONCLUSIVE property=\S+ harness=\S+ ", "", rest)[:120].replace("|", "/")
            outs.append("%s: inconclusive (%s)" % (chk, why))
    print("| %s | %s | %s | %s |" % (s, short, ", ".join(sorted({c for (ss, c) in res if ss == s})), "; ".join(outs)))
