#!/bin/bash
# verify_seed.sh <ID> [dir]: confirm a seeded change in a scratch worktree /tmp/sw/<ID>
#  1. with the change: workspace tests pass, demonstration fails
#  2. without the change: demonstration passes
ID=$1; W=${SW:-/tmp/sw}/$ID; S=${2:-/verif/seeded/$ID}
cd $W || exit 2
git checkout -q -- .
mkdir -p $W/SEEDED && cp $S/* $W/SEEDED/ 2>/dev/null
git apply $S/patch.diff || { echo "patch does not apply"; exit 2; }
touch build.rs
echo "== tests with change"; cargo test --workspace --no-fail-fast --offline 2>&1 | grep -E "^test result|FAILED|failed|panicked" | sort | uniq -c | tail -5
echo "== demo with change"; (cd $W && timeout 900 sh $W/SEEDED/run.sh > $W.demo_with.log 2>&1; echo "rc=$?")
git apply -R $S/patch.diff; touch build.rs
echo "== demo without change"; (cd $W && timeout 900 sh $W/SEEDED/run.sh > $W.demo_without.log 2>&1; echo "rc=$?")
git status --short | grep -v SEEDED
