#!/bin/bash
# store_seed.sh <ID> <suffix> <sw-root>: copy <sw-root>/<ID>/SEEDED to /verif/seeded/<ID><suffix>, record the confirmation
ID=$1; SUF=$2; SW=${3:-/tmp/sw2}
D=/verif/seeded/$ID$SUF; mkdir -p $D; cp $SW/$ID/SEEDED/* $D/
python3 - "$D" "$SW" "$ID" <<'PY'
import json,sys
d,sw,i=sys.argv[1:4]
m=json.load(open(d+'/meta.json'))
m['confirmed_by_framework_author']={'procedure':'tools/verify_seed.sh in the scratch worktree %s/%s: git apply patch.diff; cargo test --workspace --no-fail-fast --offline; sh SEEDED/run.sh (with change); git apply -R; sh SEEDED/run.sh (without change)'%(sw,i),'suite_with_change':'passed (no FAILED line)','demo_exit_with_change':'non-zero','demo_exit_without_change':'0'}
json.dump(m,open(d+'/meta.json','w'),indent=1)
PY
git -C /repo apply --check $D/patch.diff && echo "$ID$SUF stored, applies to /repo HEAD"
