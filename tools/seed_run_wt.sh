#!/bin/bash
# seed_run_wt.sh <seed id, e.g. C02c> <check ids,comma separated>
# Run the named checks against a stored seeded change in a fresh scratch worktree of /repo
# (VERIF_REPO: /repo itself is not touched, several seeds can be measured at a time); append the
# outcome to seeded/RESULTS.md; remove the worktree and the build output.
SEED=$1; CHECKS=$2
cd /verif; mkdir -p .logs
W=/tmp/swr/$SEED
git -C /repo worktree remove --force $W 2>/dev/null; rm -rf $W
git -C /repo worktree add -q --detach $W HEAD || exit 2
git -C $W apply /verif/seeded/$SEED/patch.diff || { echo "- seed $SEED: patch does not apply" | tee -a seeded/RESULTS.md; git -C /repo worktree remove --force $W; exit 2; }
for c in ${CHECKS//,/ }; do
  s=$(date +%s)
  VERIF_REPO=$W VERIF_JOBS=${VERIF_JOBS:-4} VERIF_EVIDENCE=/verif/.logs/seed-$SEED/evidence VERIF_TARGET=/verif/.target/seed-$SEED VERIF_LOGS=/verif/.logs/seed-$SEED ./check $c --tier ${TIER:-quick} ${ONLY:+--only $ONLY} > .logs/seed_${SEED}_$c.out 2>&1
  rc=$?
  e=$(date +%s)
  line="- seed $SEED vs check $c: exit $rc ($((e-s)) s) $(grep -E '^(VIOLATION|INCONCLUSIVE|OK|UNREPLAYED)|^  failed:' .logs/seed_${SEED}_$c.out | head -3 | tr '\n' ' ' | cut -c1-400)"
  echo "$line" | tee -a seeded/RESULTS.md
done
rm -rf /verif/.target/seed-$SEED
git -C /repo worktree remove --force $W
