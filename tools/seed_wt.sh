#!/bin/bash
# seed_wt.sh <ID> <suffix> <sw-root> <check ids,comma separated>
# Confirm a sub-agent's seeded change in its scratch worktree <sw-root>/<ID> (tests pass with it,
# demonstration fails with it and passes without it), store it as /verif/seeded/<ID><suffix>,
# then run the named quick checks against that worktree (VERIF_REPO: /repo itself is not touched,
# several seeds can be measured at a time), append the outcome to seeded/RESULTS.md and remove
# the worktree and the build output.
ID=$1; SUF=$2; SW=$3; CHECKS=$4
cd /verif
W=$SW/$ID
[ -f $W/SEEDED/patch.diff ] || { echo "$ID: no patch"; exit 2; }
mkdir -p .logs
( cd $W && git checkout -q -- . && git clean -fdq -e SEEDED -e target . ; git apply SEEDED/patch.diff ) || { echo "$ID$SUF: patch does not apply"; exit 2; }
cd $W; touch build.rs
T=$(cargo test --workspace --no-fail-fast --offline 2>&1 | grep -cE "^test result: FAILED|^test .* FAILED$|error: test failed")
(timeout 900 sh SEEDED/run.sh > $W.demo_with.log 2>&1); RW=$?
git apply -R SEEDED/patch.diff; touch build.rs
(timeout 900 sh SEEDED/run.sh > $W.demo_without.log 2>&1); RO=$?
git checkout -q -- . ; git clean -fdq -e SEEDED -e target . ; git apply SEEDED/patch.diff; touch build.rs
echo "$ID$SUF: suite failures with change=$T demo with change rc=$RW, without rc=$RO"
if [ "$T" != "0" ] || [ "$RW" = "0" ] || [ "$RO" != "0" ]; then echo "$ID$SUF: NOT CONFIRMED"; exit 3; fi
cd /verif
D=/verif/seeded/$ID$SUF; mkdir -p $D; cp $W/SEEDED/patch.diff $W/SEEDED/run.sh $W/SEEDED/meta.json $W/SEEDED/*.rs $W/SEEDED/*.c $D/ 2>/dev/null
python3 - "$D" "$W" <<'PY'
import json,sys
d,w=sys.argv[1:3]
try: m=json.load(open(d+'/meta.json'))
except Exception as e: m={'meta_error':str(e)}
m['confirmed_by_framework_author']={'procedure':'tools/seed_wt.sh in the scratch worktree %s: git apply patch.diff; cargo test --workspace --no-fail-fast --offline; sh SEEDED/run.sh (with change); git apply -R; sh SEEDED/run.sh (without change)'%w,'suite_with_change':'passed (no FAILED line)','demo_exit_with_change':'non-zero','demo_exit_without_change':'0'}
json.dump(m,open(d+'/meta.json','w'),indent=1)
PY
git -C /repo worktree remove --force $W
exec /verif/tools/seed_run_wt.sh $ID$SUF $CHECKS
