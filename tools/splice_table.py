#!/usr/bin/env python3
"""splice_table.py: render seeded/TABLE.md with seed_table.py and replace the table in DESIGN.md section 7."""
import subprocess, re
t = subprocess.run(["python3", "/verif/tools/seed_table.py"], capture_output=True, text=True).stdout
open("/verif/seeded/TABLE.md", "w").write(t)
p = "/verif/DESIGN.md"
s = open(p).read()
i = s.index("| seeded change | what it does | check(s) run | outcome |")
j = s.index("## 8. Known limits")
s = s[:i] + t.rstrip("\n") + "\n\n" + s[j:]
open(p, "w").write(s)
print("table spliced:", t.count("\n") - 2, "rows")
