import os, subprocess


def pre_run(pid, tier, verif, sh, env, logs):
    """Steps a property needs before its harnesses are built."""
    if pid == "C16":
        # oracle tables from the live kernel / libc (DESIGN 2.4): default
        # dispositions and the platform's signal names
        os.makedirs(logs, exist_ok=True)
        rc, to = sh("python3 %s/tools/gen_signal_tables.py" % verif, os.path.join(logs, "gen_signal_tables.log"), 120, verif)
        return 0 if rc == 0 and not to else 1
    return None


def setup(verif, codegen, sh, env, logs):
    """Offline pre-build of the harness workspaces (slot 0 of each)."""
    os.makedirs(logs, exist_ok=True)
    bad = 0
    for crate, guard, flags in (("kani", True, ""), ("kani17", False, "-Z unstable-options -Z c-ffi --c-lib /repo/src/low_level/extract.c")):
        log = os.path.join(logs, "setup.%s.log" % crate)
        cmd = "cargo kani -Z stubbing %s --target-dir %s/.target/%s-0 --only-codegen" % (flags, verif, crate)
        rc, to = sh(cmd, log, 1800, os.path.join(verif, crate), guard)
        if rc != 0 or to:
            print("setup: %s failed to build, see %s" % (crate, log))
            bad += 1
    print("setup: ok" if not bad else "setup: FAILED")
    return 1 if bad else 0
