import os, subprocess

def pre_run(pid, tier, verif, sh, env, logs):
    return None

def setup(verif, codegen, sh, env, logs):
    ok, log = codegen("kani", "kani", "")
    if not ok:
        print("setup: harness workspace failed to build, see", log)
        return 1
    print("setup: ok")
    return 0
