"""Per-property claim texts for MANIFEST.json and evidence files."""
HOOK_COMMITS = ["854d707", "e0a56f6"]

LR = "SAT-based bounded model checking (Kani/CBMC) of the real code under Lal-Reps K-round sequentialisation of thread interleavings"
SEQ = "SAT-based bounded model checking (Kani/CBMC) of the real code over symbolic inputs / states against a reference model"
KM = "; libc replaced by a nondeterministic kernel/descriptor model"

INFO = {
 "C01": dict(level="bounded: every SC interleaving of <=3 threads (1 writer doing 2 stores, 2 readers) within K=3 round-robin rounds of the real half_lock.rs; ghost lifetimes decide use-after-release / double release / release inside an open read section",
             note="sequentially consistent interleavings (half_lock.rs declares SeqCst only; weaker orderings are flagged); frees virtualised by stubbing alloc::alloc::dealloc_nonnull; spin iterations that do not advance the round are stutter steps",
             technique=LR),
 "C05": dict(level="bounded: one operation from any valid registry state (<=2 signals, <=3 actions, arbitrary u128 ids) and a fixed 11-step history with symbolic ids, compared with a per-signal ordered-list model",
             note="std HashMap/BTreeMap replaced by fixed-capacity stand-ins with map semantics; Arc replaced by a counting stand-in; kernel = model (sigaction EINVAL outside 1..64, 32, 33, KILL/STOP)",
             technique=SEQ + KM),
 "C06": dict(level="one sequential step from every well-formed channel state is a 5-bounded FIFO push/pop (inductive step), so every sequential history is covered given the representation invariant",
             note="representation invariant assumed for the symbolic pre-state (queue words well-formed, indices partition 1..5 with <=2 in flight); payload u8",
             technique=SEQ),
 "C07": dict(level="bounded: interleavings within K=3 rounds of producers/consumers on the real channel.rs with vector clocks derived from the declared Acquire/Release/Relaxed orderings; destructor counting",
             note="release sequences through RMWs modelled; stale relaxed loads only cause CAS failures, which are injected nondeterministically (<=1); cell contents are not round-versioned, so no cell is reused inside one harness except in the dedicated reuse harness",
             technique=LR + " with happens-before clocks"),
 "C13": dict(level="bounded: real pipe.rs for each descriptor kind at any fill level (capacity 3), bursts <=2, plus three rejection causes",
             note="descriptor behaviour is a model (EAGAIN iff full and MSG_DONTWAIT/O_NONBLOCK; ENOTSOCK for send on pipes/files)",
             technique=SEQ + KM),
 "C15": dict(level="bounded: every status (c_int), both registration orders, every arm/disarm/deliver history of length 3 through the real dispatcher; _exit vs exit distinguished by the model",
             note="process termination is a model event (_exit/exit/abort/killed); atexit machinery itself not modelled",
             technique=SEQ + KM),
 "C16": dict(level="all 2^32 signal numbers x {normal context, inside the signal's own blocked handler}: outcome of the real emulate_default_handler equals the live kernel's default disposition table; names equal the platform's",
             note="oracle tables are regenerated from the live kernel (fork/raise/waitpid) and libc before each run; process = model (blocked mask, pending, dispositions)",
             technique=SEQ + KM + " whose default-action table is probed from the live kernel"),
 "C17": dict(level="all 2^1024 byte patterns of siginfo_t through the real Rust extractor linked with the real extract.c",
             note="reference = sigaction(2) contract written as a table in the harness; x86-64 Linux field offsets",
             technique="SAT-based bounded model checking (Kani/CBMC with C FFI) of the real Rust + C code over a fully symbolic input buffer"),
}

NOT_APPLICABLE = {
 "C02": "harnesses under construction in this round (registry nested/LR runs are being measured); see DESIGN.md",
 "C03": "harnesses under construction in this round",
 "C04": "harnesses under construction in this round",
 "C08": "nested-call harness exceeds the time cap at the planned bounds; being reduced",
 "C09": "iterator Lal-Reps harnesses under construction in this round",
 "C10": "iterator harnesses under construction in this round",
 "C11": "iterator Lal-Reps harnesses under construction in this round",
 "C12": "iterator harnesses under construction in this round",
 "C14": "entry-point harnesses under construction in this round",
 "C18": "barrier-progress harnesses under construction in this round",
}
