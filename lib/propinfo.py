"""Per-property claim texts for MANIFEST.json and evidence files."""
HOOK_COMMITS = ["854d707", "e0a56f6", "4a6a56b", "72c604f"]

LR = "SAT-based bounded model checking (Kani/CBMC) of the real code under Lal-Reps K-round sequentialisation of thread interleavings"
SEQ = "SAT-based bounded model checking (Kani/CBMC) of the real code over symbolic inputs / states against a reference model"
KM = "; libc replaced by a nondeterministic kernel/descriptor model"

INFO = {
 "C01": dict(level="bounded: every SC interleaving of <=3 threads (1 writer doing 2 stores, 2 readers) within K=3 round-robin rounds of the real half_lock.rs; ghost lifetimes decide use-after-release / double release / release inside an open read section; registry level: every action invocation lies inside an open read section of the data lock; the real unregister() (thread 0) against the real dispatcher (thread 1) within K=3 rounds: no invocation of the removed action ends after unregister returned, released exactly once by the remover outside a delivery, nothing invoked after its release; <=2 complete deliveries nested at every shim point of unregister()/unregister_signal() on the removing thread itself",
             note="sequentially consistent interleavings (half_lock.rs declares SeqCst only; weaker orderings are flagged); frees virtualised by stubbing alloc::alloc::dealloc_nonnull; spin iterations that do not advance the round are stutter steps",
             technique=LR),
 "C05": dict(level="bounded: one operation from any valid registry state (<=2 signals, <=3 actions, arbitrary u128 ids) and fixed histories (ids, stale ids, cross-signal, a foreign handler installed before the take-over and the last action removed), compared with a per-signal ordered-list model; the library's handler with SA_RESTART|SA_SIGINFO stays installed",
             note="std HashMap/BTreeMap replaced by fixed-capacity stand-ins with map semantics; Arc replaced by a counting stand-in; kernel = model (sigaction EINVAL outside 1..64, 32, 33, KILL/STOP)",
             technique=SEQ + KM),
 "C06": dict(level="one sequential step from every well-formed channel state is a 5-bounded FIFO push/pop (inductive step), so every sequential history is covered given the representation invariant; nested clause: a complete send nested at any shim point of a send (tag accounting)",
             note="representation invariant assumed for the symbolic pre-state (queue words well-formed, indices partition 1..5 with <=2 in flight); payload u8",
             technique=SEQ),
 "C07": dict(level="bounded: interleavings within K=3 rounds of producers/consumers on the real channel.rs with vector clocks derived from the declared Acquire/Release/Relaxed orderings; destructor counting; two producers also after a sequential send+recv (recycled slot)",
             note="release sequences through RMWs modelled; stale relaxed loads only cause CAS failures, which are injected nondeterministically (<=1); cell contents are not round-versioned, so no cell is reused inside one harness except in the dedicated reuse harness",
             technique=LR + " with happens-before clocks"),
 "C13": dict(level="bounded: real pipe.rs for each descriptor kind at any fill level (capacity 3), bursts <=2, plus three rejection causes; a write that would sleep on a full descriptor is judged where the model cuts the path",
             note="descriptor behaviour is a model (EAGAIN iff full and MSG_DONTWAIT/O_NONBLOCK; ENOTSOCK for send on pipes/files); release of the descriptor when the refusal is a panic (unwinding) is outside: Kani has no unwinding",
             technique=SEQ + KM),
 "C15": dict(level="bounded: every status (c_int), both registration orders, every arm/disarm/deliver history of length 3 (thorough: 6) through the real dispatcher, also when the application hands over its only strong reference and arms/disarms through a Weak (any initial value); _exit / exit / raw SYS_exit (thread only) / SYS_exit_group distinguished by the model",
             note="process termination is a model event (_exit/exit/abort/killed); atexit machinery itself not modelled",
             technique=SEQ + KM),
 "C16": dict(level="all 2^32 signal numbers x {normal context, inside the signal's own blocked handler}: outcome of the real emulate_default_handler equals the live kernel's default disposition table; names equal the platform's",
             note="oracle tables are regenerated from the live kernel (fork/raise/waitpid) and libc before each run; process = model (blocked mask, pending, dispositions)",
             technique=SEQ + KM + " whose default-action table is probed from the live kernel"),
 "C17": dict(level="all 2^1024 byte patterns of siginfo_t through the real Rust extractor linked with the real extract.c",
             note="reference = sigaction(2) contract written as a table in the harness; x86-64 Linux field offsets",
             technique="SAT-based bounded model checking (Kani/CBMC with C FFI) of the real Rust + C code over a fully symbolic input buffer"),
}

NEST = "SAT-based bounded model checking (Kani/CBMC) of the real code with complete operations nested nondeterministically at the shim points of the interrupted code (signal-handler semantics)"
INFO.update({
 "C02": dict(level="bounded: one delivery runs exactly its signal's actions once each in id order with one read section per snapshot; mutators publish exactly one snapshot iff they changed something; unregister of any (signal,u128 id); <=2 complete deliveries nested at every shim point of register()/unregister() run the old or the new list, never a mixture; a complete register()+delivery of another thread at every point of register() where the writer mutex is free keeps registration order",
             note="maps/Arc/Once stand-ins; deliveries overlapping a mutation are nested on the mutating thread (signal-handler semantics); for deliveries on other threads the clause composes with the half-lock result of C01 and is decided directly for one delivery against unregister() on another thread (Lal-Reps K=3, shared with C01)",
             technique=SEQ + KM + "; " + LR),
 "C03": dict(level="bounded: deliveries through the real dispatcher into flag, self-pipe wake, conditional shutdown and the iterator's exfiltrating action, pipe at any fill level: no lock, no spin/yield, no allocator call, no release of a last reference, <=12 shim steps, no write that may block (also judged where the model would put the writer to sleep); the raw-siginfo action = Channel::send nested in a recv on a full buffer does not wait; thorough: against a mutator on another thread (Lal-Reps)",
             note="allocator entry points alloc::alloc::alloc / dealloc_nonnull stubbed (positive control harness); user-supplied actions and libc internals are outside",
             technique=SEQ + KM + "; allocator stubs"),
 "C04": dict(level="bounded: for each previous disposition (default, ignore, 1-arg, 3-arg SA_SIGINFO) deliveries before the take-over, at every shim point / system call inside the first registration (the race-fallback window), after it, inside / after another signal's first registration, after the last action was removed (by id, by signal) and after a re-registration chain exactly once, first, with the right convention and the kernel's arguments",
             note="integer->fn-pointer transmutes hand out logging trampolines; arrival on another thread during the first registration: thorough tier (Lal-Reps K=3)",
             technique=SEQ + KM),
 "C08": dict(level="bounded: send/recv from six concrete channel states (2 queued, 4 queued, full) with a complete send or recv nested before any shim operation (symbolic position) or right after any successful CAS (enumerated), or at every point of the outer operation in turn (enumerated, incl. a recv of the consumer inside a send) and one spurious weak-CAS failure; up to three spurious failures without nesting: no reachable panic, no waiting (CAS loops bounded, spin_loop goes through the shim), own steps bounded, tags conserved",
             note="representation invariant assumed for the pre-state; <=1 index in flight; 1 nested operation",
             technique=NEST),
 "C09": dict(level="bounded: a complete delivery nested anywhere in a consumer iteration, and a complete consumer iteration of another thread nested anywhere in the delivering action: the consumer (the replicated composition of poll_pending+pending, the real SignalsInfo::wait, and SignalIterator::poll_signal with the blocking callback = forever()) never sleeps on the empty self-pipe with a delivered signal unreported, and obtains a later delivery too",
             note="consumer = SignalDelivery::poll_pending + pending() composed as SignalsInfo::wait does; 4-entry slot table; descriptor model",
             technique=NEST + KM),
 "C10": dict(level="bounded: histories of deliveries (watched / unwatched signal) and pending() batches: yields <= deliveries, nothing unwatched, nothing twice, also under nested deliveries and a signal named twice in the constructor; WithRawSiginfo end to end: 7 deliveries with symbolic payloads, every record a faithful copy of one delivery, in delivery order, at most one per delivery, buffer overflow, a delivery nested at the cell-access / after-CAS boundaries of the first two loads of a batch",
             note="SignalOnly and WithRawSiginfo end to end on the backend object; WithOrigin is a pure function of the raw record (C17); batch points concrete",
             technique=SEQ + KM),
 "C11": dict(level="bounded: close() nested at any check of the closed flag / system call of a poll_signal or a blocking wait: Pending only after the callback was consulted and said no; sticky; later calls do not block; a consumer of another thread nested inside close() is never left asleep without a wake-up written after it fell asleep",
             note="tokio/async-std adapters map PollResult one-to-one and are not encoded",
             technique=NEST + KM),
 "C12": dict(level="bounded: add_signal with numbers that must be refused (panic: never returns, nothing changed; Err: nothing changed, retry identical), from a poisoned-lock state, re-add, failing constructor; drop with a poisoned lock unregisters and closes the pipe exactly once (thorough)",
             note="Kani has no unwinding: 'survives a caught panic' is decided as 'works from the state the panic leaves behind (lock poisoned, nothing else changed)'",
             technique=SEQ + KM + "; lock/poison queries"),
 "C14": dict(level="bounded: per checked entry point, all 5 forbidden signals never return and change nothing first; every c_int the kernel rejects gives Err with registry, dispositions and captures untouched/released; unchecked entry points pass the kernel verdict through",
             note="release of captures on the panic path (unwinding) is outside",
             technique=SEQ + KM),
 "C18": dict(level="bounded: the writer barrier completes without a second spin when idle (any generation); with readers finished by round K-2 the writer is through in round K-1 (Lal-Reps K=3); no mutator spins or holds a read section while taking a writer mutex when no delivery is in flight; lock order data->fallback only; registry and iterator survive poisoned locks",
             note="starvation by an unbounded stream of overlapping deliveries is outside",
             technique=LR + "; sequential harnesses for poison and lock order"),
})

NOT_APPLICABLE = {}
