"""Harness catalogue: which Kani harnesses decide which property, at which tier.

Every entry names a #[kani::proof] function in /verif/kani (or another harness
crate), its bounds in words, and how its output is judged:
  lr=True              Lal-Reps harness: only the deferred property assertions,
                       unwinding assertions and cover witnesses are judged
  judge_repo_panics    any reachable panic/overflow/invalid pointer located in
                       /repo code is a violation of this property
"""

def H(harness, tiers=("quick", "thorough"), crate="kani", timeout=900, **kw):
    d = dict(harness=harness, tiers=list(tiers), crate=crate, timeout=timeout)
    d.update(kw)
    return d

LRF = ("-Z unstable-options --no-assertion-reach-checks --no-overflow-checks "
       "--no-memory-safety-checks --no-undefined-function-checks")
Q = ("quick", "thorough")
T = ("thorough",)

CATALOGUE = {
    "C01": [
        H("c01::proofs::c01_lr_w1x2_r2_k3", Q, lr=True, timeout=1200, kani_flags=LRF,
          what="real half_lock.rs: 1 writer thread x 2 store(), 2 reader threads (read, use, use, drop)",
          bounds="Lal-Reps K=3 rounds, 3 threads, spin bound 4, unwind 8"),
    ],
}

PROPERTY_INFO = {
    "C01": dict(
        bounds="K<=3 (quick) / 4 (thorough) round-robin rounds; <=3 threads; <=3 stores; SeqCst only",
        outside="more rounds/threads/stores; orderings weaker than SeqCst (reported as inconclusive); unwinding paths",
        assumptions=[
            "sequentially consistent interleavings (half_lock.rs uses SeqCst only; any weaker ordering is flagged)",
            "frees are virtualised: alloc::alloc::dealloc_nonnull is stubbed to a no-op, the logical free is Drop of the payload",
            "spin loop iterations that do not advance the round are stutter steps (bounded by assumption)",
        ]),
}
