"""Harness catalogue: which Kani harnesses decide which property, at which tier.

Every entry names a #[kani::proof] function in /verif/kani (or /verif/kani17),
its bounds in words, and how its output is judged:
  lr=True              Lal-Reps harness: only the deferred property assertions,
                       unwinding assertions and cover witnesses are judged
  judge_repo_panics    any reachable panic located in /repo code is a violation
  also=[..]            the harness also carries assertions of these properties
                       (prefix "Cxx:"); they are judged under the property that
                       lists the harness
"""

LRF = ("-Z unstable-options --no-assertion-reach-checks --no-overflow-checks "
       "--no-memory-safety-checks --no-undefined-function-checks")
Q = ("quick", "thorough")
T = ("thorough",)


# Heap objects are byte arrays for CBMC; with the default limit of 64 they are not
# field-sensitive and nothing read back from a Box/Arc/Vec is ever constant-folded.
FS = "--max-field-sensitivity-array-size 2048"


def H(harness, tiers=Q, crate="kani", timeout=1500, kani_flags=LRF, cbmc_args=FS, **kw):
    d = dict(harness=harness, tiers=list(tiers), crate=crate, timeout=timeout, kani_flags=kani_flags, cbmc_args=cbmc_args)
    d.update(kw)
    return d


C01_LR = H("c01::proofs::c01_lr_w1x2_r2_k3", Q, lr=True,
           what="real half_lock.rs: 1 writer thread x 2 store(), 2 reader threads (read, use, use, drop)",
           bounds="Lal-Reps K=3 rounds, 3 threads, spin bound 4, unwind 8")

C01_LR_REG = H("c01::proofs_registry::c01_lr_registry_delivery_vs_unregister", Q, lr=True, timeout=3000, also=["C02"],
    what="registry level, two real threads: thread 0 removes the first of three actions with the real unregister(), thread 1 receives the signal through the real dispatcher at any instant: no invocation of the removed action ends after unregister returned, no action is invoked after its captures were released, the removed action is released exactly once, by the removing thread and outside a delivery; the delivery runs the old or the new list, no mixture",
    bounds="Lal-Reps K=3 rounds, 2 threads, spin bound 3, one delivery")

C05_CONCRETE = H("c05::proofs::c05_q_concrete_history", Q, also=["C02"],
    what="real registry, concrete 9-step history on 2 signals: ascending ids, delivery order, stale id, cross-signal independence, handler installed with SA_RESTART|SA_SIGINFO exactly once per signal",
    bounds="fixed history; symbolic part: none besides kernel model (harness is the sanity anchor of the symbolic ones)")
C05_FRESH = H("c05::proofs::c05_q_fresh_ids_after_unregister", Q,
    what="unregister(id), register: the new id is fresh, the stale id removes nothing afterwards, only the new action runs, handler stays installed",
    bounds="1 signal, concrete")
C05_FRESH2 = H("c05::proofs::c05_q_fresh_ids_after_unregister_signal", Q,
    what="same after unregister_signal", bounds="1 signal, concrete")
C05_UNREG_ANY = H("c05::proofs::c05_q_unregister_any", T, timeout=3000, also=["C02"],
    what="unregister of ANY (signal, u128 id) pair from a three-action state vs list model; publishes exactly once iff something was removed",
    bounds="state: 2 actions on SIGUSR1, 1 on SIGUSR2; id ranges over all of u128")
C05_STEPS = [
    H("c05::proofs::c05_step_register", T, timeout=3000, what="one register() from any valid registry state vs list model", bounds="state <=2 signals, <=2+1 actions, symbolic ids/next_id"),
    H("c05::proofs::c05_step_unregister", T, timeout=3000, also=["C02"], what="one unregister(any signal, any u128 id) from any valid state", bounds="as above"),
    H("c05::proofs::c05_step_unregister_signal", T, timeout=3000, what="one unregister_signal() from any valid state", bounds="as above"),
    H("c05::proofs::c05_step_deliver", T, timeout=3000, also=["C02"], what="one delivery from any valid state: exactly the signal's actions, in order, one read section per snapshot", bounds="as above"),
    H("c05::proofs::c05_q_history", T, timeout=3000, also=["C02"], what="3 registrations, deliveries, then unregister of any (signal,id)", bounds="symbolic u128 id and signal"),
]
CHAN_LOOPS = ("--max-field-sensitivity-array-size 2048 --unwindset _RNvNtNtCs2jm5Ny5fF8r_11signal_hook9low_level7channel7dequeue.0:5,"
              "_RNvNtNtCs2jm5Ny5fF8r_11signal_hook9low_level7channel7enqueue.0:5")
CHAN_LOOPS6 = CHAN_LOOPS.replace(".0:5", ".0:6")
C08_SPURIOUS = H("c06::proofs::c08_q_spurious_cas_failures", Q, timeout=2400, judge_repo_panics=True, judge_repo_unwind=True, also=["C06", "C08"], cbmc_args=CHAN_LOOPS6,
    what="send then recv with up to three spurious weak-CAS failures anywhere and no other operation running: nothing discarded or reported empty early, no panic, steps bounded by the failures",
    bounds="<=3 spurious failures per harness; CAS loops bounded to 5 iterations by --unwindset")
def C08H(name, what, tiers=Q):
    return H("c06::proofs::" + name, tiers, timeout=2400, judge_repo_panics=True, judge_repo_unwind=True, also=["C06"], cbmc_args=CHAN_LOOPS,
             what=what + ": no panic, no waiting (the two CAS loops are bounded to 4 iterations: first attempt + 1 interruption + 1 spurious failure + 1 spare), own steps bounded, tags conserved and ordered",
             bounds="NEST depth 1, 1 nested operation at any shim point, 1 spurious weak-CAS failure, concrete pre-state; CAS loops bounded by --unwindset (exceeding it is reported as waiting)")
def C08E(name, what, tiers=Q):
    return H("c06::proofs::" + name, tiers, timeout=2400, judge_repo_panics=True, judge_repo_unwind=True, also=["C06", "C10"], cbmc_args=CHAN_LOOPS,
             what=what + ", the nested operation running right AFTER each successful CAS of the outer operation in turn (the boundary the symbolic harnesses, which interrupt before each shim operation, do not have): no panic, no waiting, tags conserved and ordered",
             bounds="1 nested operation at a concrete boundary index (every successful CAS of the outer operation), no spurious failure, concrete pre-state")
C08_ENUM = [C08E("c08_enum_send_in_send", "send() interrupted by a send, 2 queued"),
            C08E("c08_enum_send_in_recv", "recv() interrupted by a send, 2 queued"),
            C08E("c08_enum_send_in_recv_full", "recv() on a full channel interrupted by a send"),
            C08E("c08_enum_send_in_send_last_slot", "send() interrupted by a send, 4 queued"),
            C08E("c08_enum_recv_in_recv", "recv() interrupted by a recv, 2 queued")]
def C08A(name, what, tiers=Q):
    return H("c06::proofs::" + name, tiers, timeout=2400, judge_repo_panics=True, judge_repo_unwind=True, also=["C06", "C08", "C10"], cbmc_args=CHAN_LOOPS,
             what=what + ", the nested operation running at EVERY point of the outer operation in turn (before each queue-word load, each CAS, the cell access, and right after each successful CAS; index enumerated by a concrete loop): no panic, no waiting, tags conserved and ordered",
             bounds="1 nested operation at a concrete point index 0..8 (the undisturbed run shows the outer operation has fewer points), no spurious failure, concrete pre-state (2 queued)")
C08_ENUMALL = [C08A("c08_enumall_recv_in_send", "send() with a complete recv() of the consumer thread"),
               C08A("c08_enumall_send_in_send", "send() interrupted by a send"),
               C08A("c08_enumall_send_in_recv", "recv() interrupted by a send")]
C09_DISP = [
    H("c09::proofs::c09_nest_delivery_inside_consumer_dispatcher", T, also=["C10"], timeout=2400,
      what="as c09_nest_delivery_inside_consumer, every delivery going through the kernel model and the registry's real dispatcher instead of calling the registered action directly",
      bounds="NEST depth 1, 1 nested delivery + 1 earlier delivery or stale wake-up byte; 4-entry slot table"),
    H("c09::proofs::c09_nest_consumer_inside_delivery_dispatcher", T, timeout=2400,
      what="as c09_nest_consumer_inside_delivery, through the real dispatcher", bounds="NEST depth 1, 1 nested consumer iteration"),
]
C09_FRONT = H("c09::proofs::c09_nest_delivery_inside_wait_frontend", Q, also=["C10"], timeout=2400,
      what="the same with the real front-end object: the consumer is SignalsInfo::wait() itself (Signals::new, handle), a complete delivery nested at every system call / slot access of it, then a later delivery",
      bounds="NEST depth 1, 1 nested delivery + 1 earlier delivery or stale wake-up byte + 1 later delivery")
C09_FOREVER = H("c09::proofs::c09_nest_delivery_inside_forever", Q, also=["C10", "C11"], timeout=2400,
      what="the consumer behind forever() and the async adapters: SignalIterator::poll_signal with the blocking has_signals callback (as Forever::next does); a complete delivery nested at every system call / slot access of two consecutive polls (the one handing out an earlier signal, the one that finds its batch exhausted and goes back to wait): it never sleeps with the signal unreported and obtains it",
      bounds="NEST depth 1, 1 nested delivery + 1 earlier delivery; 4-entry slot table")
C09_NEST = [
    H("c09::proofs::c09_nest_delivery_inside_consumer", Q, also=["C10"], timeout=2400,
      what="a complete delivery (the exfiltrating action add_signal registered, invoked directly) nested at every system call / slot access of one consumer iteration (read, drain, scan); next iteration must not sleep with the signal unreported",
      bounds="NEST depth 1, 1 nested delivery + 1 earlier delivery or stale wake-up byte; 4-entry slot table"),
    H("c09::proofs::c09_nest_consumer_inside_delivery", Q, timeout=2400,
      what="a complete consumer iteration (another thread) nested at every system call / slot access of the delivering action (between store and wake)",
      bounds="NEST depth 1, 1 nested consumer iteration"),
]
C11_NEST = [
    H("c09::proofs::c11_nest_close_inside_poll", Q, also=["C10"], timeout=2400,
      what="close() nested at every check of the closed flag / system call of one poll_signal() call with an async-style readiness callback; a following poll",
      bounds="NEST depth 1, close before or inside the call"),
    H("c09::proofs::c11_nest_close_inside_wait", Q, also=["C10"], timeout=2400,
      what="close() nested anywhere inside a blocking wait; two later waits must return", bounds="NEST depth 1"),
    H("c09::proofs::c11_seq_frontend_wait_after_close", Q, also=["C10"], timeout=2400,
      what="the real front-end object (Signals::new, handle, close, is_closed, wait x3 and pending): after close() returned no wait sleeps, also once close()'s wake-up byte has been consumed",
      bounds="sequential, 1 signal"),
    H("c09::proofs::c11_nest_consumer_inside_close", Q, also=["C10"], timeout=2400,
      what="the consumer of another thread (woken by a byte, iterating, going back to sleep) nested at the store and the system call of close(): when close() returns no consumer sleeps without a wake-up written after it fell asleep; later waits return",
      bounds="NEST depth 1, <=2 nested consumer iterations at one point"),
]
C12_ALL = [
    H("c12::proofs::c12_panicking_inputs_refused_cleanly", Q, also=["C14"], what="add_signal(too large / negative / beyond table / c_int::MAX): never returns, no state change, instance lock not held when the refusal is raised", bounds="4 input classes; 4-entry table in verification builds"),
    H("c12::proofs::c12_survives_poisoned_lock", Q, what="from 'ids lock poisoned by an earlier caught panic': add_signal of a valid signal completes and takes effect", bounds="-"),
    H("c12::proofs::c12_err_path_signal_only", Q, timeout=2400, what="kernel-rejected add_signal: Err, nothing changes, retry identical, later valid add works, re-add is a no-op, earlier signal still delivered (SignalOnly)", bounds="-"),
    H("c12::proofs::c12_failed_with_pipe_leaves_nothing", Q, what="the constructor behind Signals::new / SignalsInfo::with_exfiltrator fails on its second signal: nothing stays registered, both pipe ends closed exactly once, no action of the failed instance runs later", bounds="2 signals, second rejected by the kernel"),
    H("c12::proofs::c12_handle_outlives_instance", Q, timeout=2400, what="a handle outlives the instance object and adds a signal (twice): registrations stay while a handle exists and are all gone once the last handle is dropped", bounds="2 signals"),
    H("c12::proofs::c12_drop_with_poisoned_lock", T, timeout=2400, what="dropping an instance whose ids lock was poisoned by a caught panic completes and unregisters", bounds="-"),
    H("c12::proofs::c12_err_path_raw_siginfo", Q, what="same with WithRawSiginfo (lazily initialised per-signal channel)", bounds="-"),
]
def c14(e, tiers):
    return [H("c14::proofs::c14_forbidden_%s" % e, tiers, what="forbidden signal (5 of them, slot present or not) through %s: panics before anything changes" % e, bounds="all 5 forbidden signals"),
            H("c14::proofs::c14_rejected_%s" % e, tiers, what="any c_int the kernel rejects through %s: Err, nothing changed, would-be action and captures released once" % e, bounds="all kernel-rejected c_int values")]

CATALOGUE = {
    "C01": [C01_LR,
            H("c01::proofs::c01_q_actions_run_inside_read_section", Q, what="registry level: every action invocation of a delivery happens inside an open read section of the data lock (the one unregister's barrier waits for); no section left open", bounds="2 actions, 2 deliveries, sequential"),
            C01_LR_REG,
            H("c02::proofs_c01::c01_nest_delivery_inside_unregister", Q, timeout=2400, judge_repo_panics=True,
              what="the clause 'a delivery nested on the very thread that is mid-removal': <=2 complete deliveries of the signal at every shim point of unregister(id) through the real dispatcher: the removed action's captures (ghost release event of the shim Arc) are released exactly once, by the mutator and not while a delivery is on the stack, nothing is touched after its release, the surviving actions are not released, each nested delivery runs the old or the new list inside an open read section, no section stays open",
              bounds="NEST depth 1, <=2 nested deliveries; 2 actions on the signal, 1 on another"),
            H("c02::proofs_c01::c01_nest_delivery_inside_unregister_signal", Q, timeout=2400, judge_repo_panics=True,
              what="same for unregister_signal (both actions of the signal removed)",
              bounds="NEST depth 1, <=2 nested deliveries"),
            H("c01::proofs::c01_lr_w1x2_r1x2_k4", T, lr=True, timeout=3000,
              what="real half_lock.rs: 1 writer thread x 2 store(), 1 reader thread with two consecutive read sections (second one in the other generation slot)",
              bounds="Lal-Reps K=4 rounds, 2 threads, spin bound 4, unwind 8")],
    "C02": [C05_CONCRETE,
            H("c05::proofs::c02_q_removed_id_used_again", Q, what="register, unregister(id), register, unregister(the same id again), deliver: exactly the one registered and never removed action runs", bounds="1 signal, concrete history"),
            H("c02::proofs::c02_enum_register_vs_register", Q, timeout=2400, what="register() with a complete register() + delivery of another thread at every point of it at which the writer mutex is free (point index enumerated by a concrete loop): what the observing delivery ran stays an in-order prefix of what later deliveries run", bounds="1 nested (register; deliver) at each of <=9 points"),
            C05_UNREG_ANY, C01_LR_REG,
            H("c01::proofs_registry::c02_lr_registry_delivery_vs_register", T, lr=True, timeout=3000, also=["C01"],
              what="registry level, two real threads: thread 0 registers a third action for the signal with the real register(), thread 1 receives the signal through the real dispatcher at any instant: the delivery runs the old list or the old list followed by the new action, in order; nothing is released",
              bounds="Lal-Reps K=3 rounds, 2 threads, spin bound 3, one delivery"),
            H("c05::proofs::c05_step_deliver", T, timeout=3000, what="one delivery from any valid state", bounds="symbolic state"),
            H("c02::proofs::c02_nest_unregister", Q, timeout=2400, what="deliveries nested at every shim point of unregister(): each runs the old or the new action list", bounds="NEST depth 1, <=2 nested deliveries"),
            H("c02::proofs::c02_nest_register", Q, timeout=2400, what="deliveries nested at every shim point of register()", bounds="NEST depth 1, <=2 nested deliveries")],
    "C03": [
        H("c03::proofs::c03_control_alloc_is_seen", Q, what="positive control: an action that allocates trips the allocation flag (allocator entry points are stubbed)", bounds="-"),
        H("c03::proofs::c03_seq_builtin_actions", Q, timeout=2400, what="two deliveries through the real dispatcher into flag + self-pipe wake + conditional shutdown, pipe at any fill level: no lock/spin/alloc/free/blocking write, bounded steps", bounds="capacity 3"),
        H("c03::proofs::c03_seq_iterator_action", Q, timeout=2400, what="same for the iterator's exfiltrating action, self-pipe at any fill level", bounds="capacity 4"),
        # the iterator's WithRawSiginfo action is Channel::send: a delivery nested in the
        # consumer's recv() on a full buffer must not wait for the thread it interrupted
        dict(C08_ENUM[2], also=["C06", "C08", "C10"],
             what="built-in action of the iterator with raw siginfo = Channel::send: a send nested right after each successful CAS of a recv() on a full channel (a delivery landing inside the consumer's batch on the consuming thread) completes without waiting for the interrupted thread (CAS loops bounded by --unwindset; a spin is reported as waiting), no panic"),
        dict(C08H("c08_q_send_in_recv_full", "recv() on a full channel interrupted by a send at any shim point (a delivery inside the consumer's batch)", T), also=["C06", "C08"]),
        # cross-thread clause, validated: the registry-level LR harness of C01 (a lock or a
        # spin inside the delivery sets a shim error flag, judged there as "another error flag is set")
        dict(C01_LR_REG, tiers=list(T), also=["C01", "C02"]),
        # the heavier ones (built-in actions + allocator stubs): the unregister variant finished in 1043 s on the
        # unchanged tree (thorough); the register variant in 1413 s (both run side by side)
        H("c03::proofs::c03_lr_delivery_vs_unregister", T, lr=True, timeout=3600, what="a delivery (flag + self-pipe wake + conditional shutdown) on thread 1 while thread 0 is anywhere inside unregister() of one of its actions", bounds="Lal-Reps K=3, 2 threads"),
        H("c03::proofs::c03_lr_delivery_vs_register", T, lr=True, timeout=3600, what="the same while thread 0 is anywhere inside register() of another signal", bounds="Lal-Reps K=3, 2 threads"),
    ],
    "C04": [
        H("c04::proofs::c04_seq_chain_all_dispositions", Q, what="previous disposition in {default, ignore, 1-arg handler, 3-arg SA_SIGINFO handler}; deliveries before the take-over, after it, after another signal's first registration, after the last action was removed by id, after a re-registration, after unregister_signal: chained exactly once, first, right convention and arguments", bounds="4 dispositions x 6 arrival instants"),
        H("c04::proofs::c04_chain_first_registration", Q, timeout=2400, what="same with the kernel delivering at every shim point / system call of the first registration (nested on the registering thread), and of another signal's first registration", bounds="NEST depth 1, <=2+1 nested deliveries"),
        H("c04::proofs::c04_lr_chain_vs_registration", T, lr=True, timeout=3600, what="thread 0 performs the first registration of the signal (then of another signal) while thread 1 receives the signal twice at any instant", bounds="Lal-Reps K=3, 2 threads"),
    ],
    "C05": [C05_CONCRETE, C05_FRESH, C05_FRESH2,
            H("c05::proofs::c05_q_stays_installed_over_foreign_handler", Q, what="a foreign handler was installed before the take-over: after the last action is removed (by id or by signal) the library's handler with SA_RESTART|SA_SIGINFO is still the disposition; re-registration works", bounds="1 signal, concrete history, both removal calls"),
            C05_UNREG_ANY] + C05_STEPS,
    "C06": [
        H("c06::proofs::c06_seq_send_step", Q, what="one send() from any well-formed channel state (<=2 indices in flight) vs 5-bounded FIFO", bounds="all queue words satisfying the representation invariant; payload u8"),
        H("c06::proofs::c06_seq_recv_step", Q, what="one recv() from any well-formed channel state vs FIFO pop", bounds="as above"),
        H("c06::proofs::c06_new_is_empty", Q, what="Channel::new() is empty and well-formed", bounds="-"),
        C08H("c08_q_send_in_send", "nested clause of C06: send() interrupted by a complete send (both take an index from the same free list)"),
        C08_SPURIOUS, C08_ENUM[2], C08_ENUMALL[0],
    ],
    "C07": [
        H("c07::proofs::c07_lr_reuse_k3", Q, lr=True, what="consumer takes the only queued value, producer's send reuses that cell: happens-before under declared orderings, drops", bounds="Lal-Reps K=3, 2 threads, <=1 spurious CAS failure"),
        H("c07::proofs::c07_lr_p2_k3", Q, lr=True, timeout=2400, what="two producers on two threads (the documented multi-producer mode), one send each, channel dropped afterwards: no two threads touch a cell without happens-before, every value dropped exactly once", bounds="Lal-Reps K=3, 2 threads, <=1 spurious CAS failure"),
        H("c07::proofs::c07_lr_p2_after_recv_k3", Q, lr=True, timeout=2400, what="the same two producers on a channel that has already carried a value (sequential send + recv first: a slot has been recycled), from Channel::new() - no state-construction hook, runs in the fallback build too", bounds="Lal-Reps K=3, 2 threads, <=1 spurious CAS failure; sequential prefix of 1 send + 1 recv"),
        H("c07::proofs::c07_lr_p1x2_c1_k3", T, lr=True, timeout=3600, what="1 producer (2 sends), 1 consumer (2 recvs): cell races, exactly-once drop, FIFO clauses", bounds="Lal-Reps K=3, 2 threads, <=1 spurious CAS failure"),
        H("c07::proofs::c07_lr_p2_c1_k3", T, lr=True, timeout=3600, what="2 producers (1 send each), 1 consumer (2 recvs): cell races, exactly-once drop, FIFO clauses", bounds="Lal-Reps K=3, 3 threads, <=1 spurious CAS failure"),
    ],
    "C08": [C08_SPURIOUS, C08H("c08_q_send_in_send", "send() interrupted by a complete send (signal handler on the same thread), 2 values queued"),
            C08H("c08_q_send_in_recv", "recv() interrupted by a complete send, 2 values queued"),
            C08H("c08_q_send_in_send_last_slot", "send() interrupted by a send that takes the last free slot (4 queued)"),
            C08H("c08_q_recv_in_recv", "recv() interrupted by a complete recv (second consumer), 2 values queued"),
            C08H("c08_q_recv_in_send_full", "send() on a full channel interrupted by a recv that frees a slot"),
            C08H("c08_q_send_in_recv_full", "recv() on a full channel interrupted by a send (which finds no slot, or the one recv has just freed)", T)] + C08_ENUM + C08_ENUMALL,
    "C09": C09_NEST + [C09_FRONT, C09_FOREVER] + C09_DISP + [H("c09::proofs::c10_seq_counts_signal_only", T, also=["C10"], timeout=2400, what="sequential histories of deliveries and pending() batches", bounds="3 steps")],
    "C10": [H("c09::proofs::c10_seq_counts_signal_only", Q, also=["C09"], timeout=2400, what="histories of deliveries and pending() batches (SignalOnly): a burst collapses to one report, nothing reported twice, yields <= deliveries", bounds="3 deliveries, 3 batches"),
            H("c09::proofs::c10_seq_raw_records_burst7", Q, also=["C09"], timeout=2400, what="WithRawSiginfo end to end (real dispatcher, exfiltrator, channel): 7 deliveries with symbolic payloads in one burst (buffer holds 5), an unwatched signal in between: every record is a faithful copy of one delivery, in delivery order, at most one per delivery, none twice", bounds="7 deliveries; si_code and 8 payload bytes symbolic per delivery; batch points concrete"),
            H("c09::proofs::c10_seq_raw_records_3_4", Q, also=["C09"], timeout=2400, what="same, a batch after 3 deliveries and one after 4 more", bounds="as above"),
            H("c09::proofs::c10_enum_raw_delivery_inside_batch", Q, also=["C09"], timeout=2400, what="WithRawSiginfo: five deliveries fill the buffer, a sixth lands at each of the first 7 cell-access / after-successful-CAS boundaries of the batch in turn (first two loads): records faithful, in order, at most one per delivery, none twice", bounds="1 nested delivery (registered action invoked directly) at a concrete boundary index 0..6; payloads symbolic"),
            H("c09::proofs::c10_seq_raw_records_6_1", T, also=["C09"], timeout=2400, what="same, a batch after 6 deliveries and one after the 7th", bounds="as above"),
            C08_ENUM[2], C08_ENUMALL[0],
            ] + C09_NEST[:1] + C09_DISP[:1],
    "C11": C11_NEST,
    "C12": C12_ALL,
    "C13": [
        H("c13::proofs::c13_q_wake_pipe", Q, what="pipe.rs on a pipe at any fill level: register, one delivery, unregister, delivery", bounds="capacity 3, burst 1"),
        H("c13::proofs::c13_q_wake_stream", Q, what="same on a stream socket", bounds="capacity 3, burst 1"),
        H("c13::proofs::c13_q_wake_dgram", Q, what="same on a datagram socket", bounds="capacity 3, burst 1"),
        H("c13::proofs::c13_q_wake_regular_file", Q, what="same on a regular file", bounds="burst 1"),
        H("c13::proofs::c13_wake_pipe", T, timeout=3000, what="pipe.rs on a pipe at any fill level: register, burst of 1..2 deliveries, unregister, delivery", bounds="capacity 3, burst<=2"),
        H("c13::proofs::c13_wake_stream", T, timeout=3000, what="same on a stream socket", bounds="capacity 3, burst<=2"),
        H("c13::proofs::c13_wake_dgram", T, what="same on a datagram socket", bounds="capacity 3 datagrams, burst<=2"),
        H("c13::proofs::c13_wake_regular_file", T, what="same on a regular file", bounds="burst<=2"),
        H("c13::proofs::c13_rejected_registration", Q, what="invalid descriptor / fcntl failure / kernel-rejected signal: descriptor closed once, nothing registered", bounds="3 rejection causes"),
    ],
    "C14": c14("registry_register", Q) + c14("flag_register", Q) + c14("pipe_register_raw", Q)
           + [H("c14::proofs::c14_unchecked_pass_verdict_through", Q, what="register_unchecked / register_signal_unchecked with forbidden numbers: the kernel's verdict is returned", bounds="5 forbidden signals x 2 entry points")]
           + c14("registry_register_sigaction", T) + c14("flag_register_usize", T) + c14("flag_conditional_shutdown", T) + c14("flag_conditional_default", T)
           + [C12_ALL[0]],
    "C15": [
        H("c15::proofs::c15_flags_hold_value", Q, what="flag::register / register_usize through the real dispatcher, application writes in between", bounds="any bool/usize values, 2 deliveries"),
        H("c15::proofs::c15_conditional_shutdown", Q, what="conditional shutdown + arming flag, both registration orders, any status (c_int), every arm/disarm/deliver history", bounds="history length 3"),
        H("c15::proofs::c15_conditional_shutdown_sole_owner", Q, what="the application hands its only strong reference to register_conditional_shutdown and arms / disarms through a Weak afterwards: any initial value, every arm/disarm/deliver history: dies iff the flag is true when the action runs", bounds="history length 3, any status"),
        H("c15::proofs::c15_conditional_shutdown_len6", T, timeout=2400, what="same, histories of length 6", bounds="history length 6"),
    ],
    "C16": [
        H("c16::proofs::c16_emulate_default_all_signals", Q, what="emulate_default_handler + signal_name for every c_int, from normal context and from the signal's own (blocked) handler; oracle = live kernel table", bounds="all 2^32 signal numbers x 2 contexts"),
        H("c16::proofs::c16_terminating_witness", Q, what="SIGTERM from inside its own handler never returns", bounds="-"),
    ],
    "C17": [
        H("proofs::c17_extract_all_bytes", Q, crate="kani17", guard=False,
          kani_flags="-Z unstable-options -Z c-ffi --c-lib /repo/src/low_level/extract.c",
          what="Origin::extract (real Rust + real extract.c) on every 128-byte siginfo_t", bounds="all 2^1024 byte patterns; x86-64 Linux layout"),
    ],
    "C18": [
        H("c18::proofs::c18_q_mutators_wait_for_nobody", Q, what="register / unregister (live, stale) / unregister_signal with no delivery in flight: no spinning at all, and no read section of either registry lock is held at the moment a writer mutex is taken (two such mutators would wait for each other forever)", bounds="6 mutator calls on 2 signals, sequential"),
        H("c18::proofs::c18_seq_barrier_completes_when_idle", Q, what="two store() from any generation value with idle reader slots complete without a second spin", bounds="generation: all of usize"),
        H("c18::proofs::c18_lr_barrier_progress", Q, lr=True, what="two readers finished by round K-2, the writer (last in each round) must be through its barrier in round K-1", bounds="Lal-Reps K=3, 3 threads"),
        H("c18::proofs::c18_registry_tolerates_poison", Q, what="both registry writer mutexes poisoned: register/deliver/unregister still work; lock order data->fallback only", bounds="-"),
        C12_ALL[1],
    ],
}

PROPERTY_INFO = {}
