"""Harness catalogue: which Kani harnesses decide which property, at which tier.

Every entry names a #[kani::proof] function in /verif/kani (or /verif/kani17),
its bounds in words, and how its output is judged:
  lr=True              Lal-Reps harness: only the deferred property assertions,
                       unwinding assertions and cover witnesses are judged
  judge_repo_panics    any reachable panic located in /repo code is a violation
  also=[..]            the harness also carries assertions of these properties
                       (prefix "Cxx:"); they are judged under the property that
                       lists the harness
"""

LRF = ("-Z unstable-options --no-assertion-reach-checks --no-overflow-checks "
       "--no-memory-safety-checks --no-undefined-function-checks")
Q = ("quick", "thorough")
T = ("thorough",)


def H(harness, tiers=Q, crate="kani", timeout=1500, kani_flags=LRF, **kw):
    d = dict(harness=harness, tiers=list(tiers), crate=crate, timeout=timeout, kani_flags=kani_flags)
    d.update(kw)
    return d


C01_LR = H("c01::proofs::c01_lr_w1x2_r2_k3", Q, lr=True,
           what="real half_lock.rs: 1 writer thread x 2 store(), 2 reader threads (read, use, use, drop)",
           bounds="Lal-Reps K=3 rounds, 3 threads, spin bound 4, unwind 8")

CATALOGUE = {
    "C01": [C01_LR],
    "C05": [
        H("c05::proofs::c05_q_history", Q, also=["C02"],
          what="real registry: 3 registrations on 2 signals, deliveries, unregister of ANY (signal,id) pair, re-register, unregister_signal; vs list model",
          bounds="fixed 11-operation history, symbolic id (u128) and signal pairing; maps <=2 signals x <=3 actions"),
        H("c05::proofs::c05_step_register", T, timeout=2400,
          what="one register() from any valid registry state vs list model", bounds="state <=2 signals, <=2+1 actions, symbolic ids/next_id"),
        H("c05::proofs::c05_step_unregister", T, timeout=2400, also=["C02"],
          what="one unregister(any signal, any u128 id) from any valid state", bounds="as above"),
        H("c05::proofs::c05_step_unregister_signal", T, timeout=2400,
          what="one unregister_signal() from any valid state", bounds="as above"),
        H("c05::proofs::c05_step_deliver", T, timeout=2400, also=["C02"],
          what="one delivery from any valid state", bounds="as above"),
    ],
    "C06": [
        H("c06::proofs::c06_seq_send_step", Q, what="one send() from any well-formed channel state (<=2 indices in flight) vs 5-bounded FIFO", bounds="all 2^16 x 2^16 queue words satisfying the representation invariant; payload u8"),
        H("c06::proofs::c06_seq_recv_step", Q, what="one recv() from any well-formed channel state vs FIFO pop", bounds="as above"),
        H("c06::proofs::c06_new_is_empty", Q, what="Channel::new() is empty and well-formed", bounds="-"),
    ],
    "C07": [
        H("c07::proofs::c07_lr_reuse_k3", Q, lr=True, what="consumer takes the only queued value, producer's send reuses that cell: happens-before under declared orderings, drops", bounds="Lal-Reps K=3, 2 threads, <=1 spurious CAS failure"),
        H("c07::proofs::c07_lr_p2_c1_k3", T, lr=True, timeout=3000, what="2 producers (2+1 sends), 1 consumer (3 recvs): cell races, exactly-once drop, FIFO clauses", bounds="Lal-Reps K=3, 3 threads, <=1 spurious CAS failure"),
    ],
    "C13": [
        H("c13::proofs::c13_wake_pipe", Q, what="pipe.rs on a pipe at any fill level: register, burst of 1..2 deliveries, unregister, delivery", bounds="capacity 3, burst<=2"),
        H("c13::proofs::c13_wake_stream", Q, what="same on a stream socket", bounds="capacity 3, burst<=2"),
        H("c13::proofs::c13_wake_dgram", T, what="same on a datagram socket", bounds="capacity 3 datagrams, burst<=2"),
        H("c13::proofs::c13_wake_regular_file", T, what="same on a regular file", bounds="burst<=2"),
        H("c13::proofs::c13_rejected_registration", Q, what="invalid descriptor / fcntl failure / kernel-rejected signal: descriptor closed once, nothing registered", bounds="3 rejection causes"),
    ],
    "C15": [
        H("c15::proofs::c15_flags_hold_value", Q, what="flag::register / register_usize through the real dispatcher, application writes in between", bounds="any bool/usize values, 2 deliveries"),
        H("c15::proofs::c15_conditional_shutdown", Q, what="conditional shutdown + arming flag, both registration orders, any status (c_int), every arm/disarm/deliver history", bounds="history length 3"),
    ],
    "C16": [
        H("c16::proofs::c16_emulate_default_all_signals", Q, what="emulate_default_handler + signal_name for every c_int, from normal context and from the signal's own (blocked) handler; oracle = live kernel table", bounds="all 2^32 signal numbers x 2 contexts"),
        H("c16::proofs::c16_terminating_witness", Q, what="SIGTERM from inside its own handler never returns", bounds="-"),
    ],
    "C17": [
        H("proofs::c17_extract_all_bytes", Q, crate="kani17", guard=False,
          kani_flags="-Z c-ffi --c-lib /repo/src/low_level/extract.c",
          what="Origin::extract (real Rust + real extract.c) on every 128-byte siginfo_t", bounds="all 2^1024 byte patterns; x86-64 Linux layout"),
    ],
}

PROPERTY_INFO = {}
