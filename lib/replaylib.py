"""Native replay of counterexamples (DESIGN.md §2.7).

Kani's concrete playback turns the solver's assignment into a unit test that
runs the *same harness over the same real code* natively (no CBMC model): the
values of every kani::any() are replayed in order.  A violation is reported
only when the property assertion fails in that native run as well.
"""
import json, os, re, shutil, subprocess, time


def extract_tests(text):
    """Return list of generated unit tests (source text) from Kani's print output."""
    tests = []
    for m in re.finditer(r"```\n(/// Test generated for harness.*?)```", text, re.S):
        tests.append(m.group(1))
    if not tests:
        for m in re.finditer(r"(#\[test\]\nfn kani_concrete_playback_\w+\(\) \{.*?\n\})\n", text, re.S):
            tests.append(m.group(1))
    return tests


CRATE_DIR = lambda crate: os.path.join("/verif", crate)  # set by ./check (VERIF_REPO)


def replay(h, res, pid, kani_cmd, sh, verif, logs, env):
    os.makedirs(os.path.join(verif, "replays"), exist_ok=True)
    stamp = time.strftime("%Y%m%d-%H%M%S")
    base = os.path.join(verif, "replays", "%s-%s-%s" % (pid, h["harness"].split("::")[-1], stamp))
    log = base + ".kani.log"
    rc, to = sh(kani_cmd(h, "-Z concrete-playback --concrete-playback=print", slot=0), log,
                max(3 * h["timeout"], 1800), CRATE_DIR(h["crate"]), h.get("guard", True))
    text = open(log, errors="replace").read()
    def check_msg(t):
        m = re.search(r"/// Check for `[^`]*`: (.*?)(?=\n///\s*\n|\n\s*\n|\n#\[test\])", t, re.S)
        d = m.group(1) if m else ""
        d = re.sub(r"\n///\s?", "\n", d)
        if re.search(r"concat!\s*\(", d):
            d = "".join(re.findall(r'"([^"]*)"', d[d.index("concat!"):]))
        return d.strip('"')
    never_completes = any("never completes" in f["desc"] for f in res["failed"])
    unreachable_hit = any(": unreachable:" in f["desc"] for f in res["failed"])
    all_tests = extract_tests(text)
    tests = [t for t in all_tests if check_msg(t).startswith(pid + ":") or any(check_msg(t).startswith(p + ":") for p in h.get("also", []))]
    if never_completes:
        # "no path reaches the end": any reachable panic is a witness; natively the
        # run must panic instead of completing
        tests += [t for t in all_tests if "/// Check for `cover`" not in t and t not in tests]
    if unreachable_hit:
        # the forbidden point was reached: Kani emits a playback test for the satisfied cover
        tests += [t for t in all_tests if "unreachable:" in check_msg(t) and t not in tests]
    # complete schedules first (they replay without junk from unrealisable guesses)
    tests.sort(key=lambda t: 0 if "[replayable]" in check_msg(t) else 1)
    tests = tests[:3]
    rec = dict(property=pid, harness=h["harness"], crate=h["crate"], failed=res["failed"],
               never_completes=never_completes, unreachable_hit=unreachable_hit, also=h.get("also", []),
               tests=tests, kani_flags=h.get("kani_flags", ""), guard=h.get("guard", True))
    path = base + ".json"
    if not tests and not all_tests:
        # a harness without nondeterministic inputs: Kani has no values to report;
        # the native replay is the harness itself
        name = h["harness"].split("::")[-1]
        tests = ["#[test]\nfn kani_concrete_playback_%s_plain() {\n    let concrete_vals: Vec<Vec<u8>> = vec![];\n    kani::concrete_playback_run(concrete_vals, %s);\n}\n" % (name, name)]
        rec["tests"] = tests
        rec["note"] = "deterministic harness: replayed natively as it is"
    if not tests:
        rec["note"] = "Kani produced no concrete playback test"
        json.dump(rec, open(path, "w"), indent=1)
        return None, path
    json.dump(rec, open(path, "w"), indent=1)
    ok = run_tests(rec, verif, sh, logs)
    rec["reproduced"] = ok
    json.dump(rec, open(path, "w"), indent=1)
    return ok, path


def run_tests(rec, verif, sh, logs):
    """Copy the harness crate to a scratch dir, append the generated tests to the
    harness's module, run them with `cargo kani playback`; a property assertion
    that fails natively (panic message starting with the property id) = reproduced."""
    pid = rec["property"]
    modname = rec["harness"].split("::")[0]
    scratch = os.path.join(verif, ".scratch", "replay-%d" % os.getpid())
    if os.path.exists(scratch):
        shutil.rmtree(scratch)
    shutil.copytree(CRATE_DIR(rec["crate"]), scratch,
                    ignore=shutil.ignore_patterns("target", ".target"))
    src = os.path.join(scratch, "src", modname + ".rs")
    modpath = "::".join(rec["harness"].split("::")[1:-1])
    if not os.path.exists(src):
        # the harness module is declared inline in lib.rs (kani17)
        src = os.path.join(scratch, "src", "lib.rs")
        modpath = "::".join(rec["harness"].split("::")[:-1])
    body = open(src).read()
    # only the code: Kani's doc-comment header quotes the check message, and a
    # multi-line `concat!` message leaves an uncommented line behind
    inner = "\n".join(t[t.index("#[test]"):] if "#[test]" in t else t for t in rec["tests"])
    body += "\n#[cfg(kani)]\nmod playback_generated {\n    use super::%s::*;\n%s\n}\n" % (modpath or "", inner)
    # the generated test refers to the harness by its bare name
    open(src, "w").write(body)
    reproduced = False
    # "waits for another operation": natively the stubs of the Kani run are not
    # applied, the code under test really spins - a run that does not come back is
    # the reproduction
    waits = any(("waiting for another operation" in f["desc"]) or ("waits for" in f["desc"]) for f in rec["failed"])
    names = re.findall(r"fn (kani_concrete_playback_\w+)\(", inner)
    for profile in ("", "--release"):
        for i, name in enumerate(names):
            log = os.path.join(logs, "replay.%s.%s.%d.log" % (modname, profile.strip("-") or "dev", i))
            # one test per process: the shim state is process-global
            cmd = ("cargo kani playback -Z concrete-playback %s -- %s --nocapture --test-threads=1"
                   % (profile, name))
            rc_to = sh(cmd, log, 420 if waits else 1200, scratch, rec.get("guard", True))
            out = open(log, errors="replace").read()
            m = re.search(r"panicked at [^\n]*\n([^\n]*)", out)
            msg = m.group(1).lstrip('"') if m else ""
            ids = [pid] + list(rec.get("also", []))
            hit = m and any(msg.startswith(i + ":") for i in ids)
            if not hit and rec.get("never_completes") and m and "test result: ok" not in out and not re.match(r"C\d\d:", msg):
                # the operation panicked natively instead of completing
                hit = True
            if not hit and rec.get("unreachable_hit") and "test result: ok" in out:
                # the run completed natively although it must have been refused
                hit = True
            # (libtest's own "running 1 test" line is block-buffered and lost when the
            # hanging process is killed; cargo's "Running unittests" line on stderr is not)
            if not hit and waits and rc_to[1] and re.search(r"^\s*Running ", out, re.M) and "test result" not in out:
                hit = True
                msg = "(the native run did not return within the time limit)"
            if hit:
                reproduced = True
                rec.setdefault("native", []).append(dict(test=name, profile=profile or "dev", panic=msg))
        if reproduced:
            break
    shutil.rmtree(scratch, ignore_errors=True)
    return reproduced


def replay_file(path, verif, sh, env, logs):
    rec = json.load(open(path))
    os.makedirs(logs, exist_ok=True)
    ok = run_tests(rec, verif, sh, logs)
    if ok:
        print("VIOLATION property=%s replay=%s" % (rec["property"], path))
        return 1
    print("replay did not reproduce the failure")
    return 0
