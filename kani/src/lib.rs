//! Kani harnesses over the real signal-hook sources (built with --cfg sighook_verif).
//! One module per property; `common` holds the harness-side halves of the shim
//! (`vshim_interrupt`, kernel-model callbacks) and shared ghost state.
#![allow(dead_code, static_mut_refs, unused_imports, unused_unsafe, deprecated, unused_variables, unused_mut)]
extern crate alloc;

pub mod common;
pub mod c01;
pub mod c02;
pub mod c03;
pub mod c04;
pub mod c05;
pub mod c06;
pub mod c07;
pub mod c09;
pub mod c12;
pub mod c13;
pub mod c14;
pub mod c15;
pub mod c16;
pub mod c18;
