//! C03 — async-signal-safety of a delivery through the real dispatcher into the
//! built-in actions (flag, self-pipe wake, conditional shutdown, iterator
//! exfiltration): no lock, no spin/yield, no heap traffic, bounded steps, no
//! panic, non-blocking writes — sequentially from any pipe fill level, and with
//! a mutator on another thread paused anywhere (Lal–Reps).
use crate::c05::{SA, SB};
use crate::common::*;
use libc::model::{open_fd, FdKind};
use libc::vshim::sync::ARCS;
use libc::vshim::{E_ALLOC_IN_DELIVERY, E_LOCK_IN_DELIVERY, E_SPIN_IN_DELIVERY};
use signal_hook::flag;
use signal_hook::iterator::Signals;
use signal_hook::low_level::pipe::register_raw;
use signal_hook_registry::{register, unregister};
use std::sync::atomic::{AtomicBool, Ordering};
use std::sync::Arc;

pub const FD: libc::c_int = 3;
pub const E_RELEASED_IN_DELIVERY: u32 = libc::vshim::eh(0);
pub const E_OPS: u32 = libc::vshim::eh(1);
pub const E_MAY_BLOCK: u32 = libc::vshim::eh(2);
/// shim operations of one delivery: two read sections (4 each) + one wake-up
pub const MAX_OPS: u32 = 12;

/// Allocation entry points (the ones Box/Vec/Arc reach in this toolchain),
/// stubbed: flag if inside a delivery, then hand out memory as usual.
#[cfg(kani)]
pub unsafe fn c03_alloc(layout: core::alloc::Layout) -> *mut u8 {
    if vshim::in_delivery() {
        vshim::flag(E_ALLOC_IN_DELIVERY);
    }
    alloc::alloc::alloc_zeroed(layout)
}
#[cfg(kani)]
pub unsafe fn c03_dealloc(_p: core::ptr::NonNull<u8>, _l: core::alloc::Layout) {
    if vshim::in_delivery() {
        vshim::flag(E_ALLOC_IN_DELIVERY);
    }
}

/// The model cuts a path on which a write sleeps on a full descriptor; the
/// verdict for that path is taken here.
pub fn wblock_hook(_fd: libc::c_int) {
    assert!(false, "C03: a built-in action wrote to its pipe in a way that can block");
}

pub fn after_delivery_checks() {
    unsafe {
        if vshim::max_delivery_ops() > MAX_OPS {
            vshim::flag(E_OPS);
        }
        let mut i = 0;
        while i < 6 {
            if ARCS::released_in_delivery[i] {
                vshim::flag(E_RELEASED_IN_DELIVERY);
            }
            i += 1;
        }
        if K::fds[FD as usize].may_block != 0 || K::fds[5].may_block != 0 {
            vshim::flag(E_MAY_BLOCK);
        }
    }
}

#[cfg(kani)]
pub mod proofs {
    use super::*;

    fn builtin_actions(fill: u32) -> (Arc<AtomicBool>, signal_hook::SigId) {
        reg::init_globals();
        unsafe { vshim::HOOKS.wblock = wblock_hook };
        open_fd(FD as usize, FdKind::Stream, 3, fill, false);
        let f = Arc::new(AtomicBool::new(false));
        let cond = Arc::new(AtomicBool::new(false));
        let a = ok(flag::register(SA, Arc::clone(&f)));
        let b = ok(register_raw(SA, FD));
        let c = ok(flag::register_conditional_shutdown(SA, 3, Arc::clone(&cond)));
        assert!(a.is_some() && b.is_some() && c.is_some(), "C03: registering the built-in actions failed");
        core::mem::forget(cond);
        (f, a.unwrap())
    }

    fn seq_verdict() {
        after_delivery_checks();
        let e = vshim::errors();
        assert!(e & E_LOCK_IN_DELIVERY == 0, "C03: a delivery acquired a lock");
        assert!(e & E_SPIN_IN_DELIVERY == 0, "C03: a delivery spun or yielded waiting for another thread");
        assert!(e & E_ALLOC_IN_DELIVERY == 0, "C03: a delivery allocated or freed heap memory");
        assert!(e & E_RELEASED_IN_DELIVERY == 0, "C03: a delivery released the last reference to an action (frees inside the handler)");
        assert!(e & E_OPS == 0, "C03: a delivery took more steps than two read sections and its actions need");
        assert!(e & E_MAY_BLOCK == 0, "C03: a built-in action wrote to its pipe in a way that can block");
    }

    /// quiescent deliveries into flag + pipe wake + conditional shutdown, pipe at any fill level
    #[kani::proof]
    #[kani::stub(alloc::alloc::alloc, c03_alloc)]
    #[kani::stub(alloc::alloc::dealloc_nonnull, c03_dealloc)]
    #[kani::unwind(7)]
    pub fn c03_seq_builtin_actions() {
        let fill: u32 = kani::any();
        kani::assume(fill <= 3);
        let (f, _id) = builtin_actions(fill);
        deliver(SA);
        deliver(SA);
        assert!(f.load(Ordering::SeqCst), "C03: the flag action did not run");
        seq_verdict();
        kani::cover!(fill == 3, "pipe completely full");
        kani::cover!(vshim::max_delivery_ops() >= 9, "both read sections and the wake-up counted");
        core::mem::forget(f);
    }

    /// positive control: an action that allocates must trip the allocation flag
    #[kani::proof]
    #[kani::stub(alloc::alloc::alloc, c03_alloc)]
    #[kani::stub(alloc::alloc::dealloc_nonnull, c03_dealloc)]
    #[kani::unwind(7)]
    pub fn c03_control_alloc_is_seen() {
        reg::init_globals();
        let a = ok(unsafe { register(SA, || core::mem::forget(Box::new(7u64))) });
        assert!(a.is_some(), "C03: registering failed");
        deliver(SA);
        kani::cover!(vshim::errors() & E_ALLOC_IN_DELIVERY != 0, "the allocation inside the delivery was flagged");
    }

    /// the iterator's exfiltrating action (SignalOnly store + self-pipe wake), pipe possibly full
    #[kani::proof]
    #[kani::stub(alloc::alloc::alloc, c03_alloc)]
    #[kani::stub(alloc::alloc::dealloc_nonnull, c03_dealloc)]
    #[kani::stub(core::fmt::write, crate::common::no_fmt_write)]
    #[kani::unwind(8)]
    pub fn c03_seq_iterator_action() {
        let s = crate::c09::mk_delivery(false);
        unsafe { vshim::HOOKS.wblock = wblock_hook };
        let fill: u32 = kani::any();
        kani::assume(fill <= libc::vshim::net::PAIR_CAP);
        unsafe { K::fds[5].fill = fill };
        deliver(libc::SIGHUP);
        seq_verdict();
        kani::cover!(fill == libc::vshim::net::PAIR_CAP, "self-pipe completely full");
        core::mem::forget(s);
    }

    /// a delivery on thread 1 while thread 0 is anywhere inside unregister()
    #[kani::proof]
    #[kani::stub(alloc::alloc::alloc, c03_alloc)]
    #[kani::stub(alloc::alloc::dealloc_nonnull, c03_dealloc)]
    #[kani::unwind(9)]
    pub fn c03_lr_delivery_vs_unregister() {
        lr_delivery_vs_mutator(true);
    }
    /// ... inside register() of another signal
    #[kani::proof]
    #[kani::stub(alloc::alloc::alloc, c03_alloc)]
    #[kani::stub(alloc::alloc::dealloc_nonnull, c03_dealloc)]
    #[kani::unwind(9)]
    pub fn c03_lr_delivery_vs_register() {
        lr_delivery_vs_mutator(false);
    }
    /// (two harnesses, `which` concrete: with the state really present in the LR
    /// part - see DESIGN 9 - one query for both was 7 M variables and 200 s per
    /// judged assertion)
    fn lr_delivery_vs_mutator(which: bool) {
        // (set before the state is built: the sequential stores of the registrations
        // must reach the round-0 memory the LR part starts from)
        unsafe { vshim::ST::mirror_ptrs = true };
        let (f, id) = builtin_actions(0);
        vshim::set_mode_lr(3, 3, 0);
        vshim::thread_start(0);
        if which {
            let r = unregister(id);
            core::mem::forget(r);
        } else {
            let r = ok(unsafe { register(SB, || hit(5)) });
            core::mem::forget(r);
        }
        let r0 = vshim::round();
        vshim::thread_start(1);
        vshim::sys_point(); // the kernel picks its moment
        deliver(SA);
        let r1 = vshim::round();
        after_delivery_checks();
        crate::lr_verdict!(
            "C03",
            (E_LOCK_IN_DELIVERY, "a delivery acquired a lock"),
            (E_SPIN_IN_DELIVERY, "a delivery spun or yielded waiting for another thread"),
            (E_ALLOC_IN_DELIVERY, "a delivery allocated or freed heap memory"),
            (E_RELEASED_IN_DELIVERY, "a delivery released the last reference to an action (frees inside the handler)"),
            (E_OPS, "a delivery took more steps than two read sections and its actions need"),
            (E_MAY_BLOCK, "a built-in action wrote to its pipe in a way that can block"),
        );
        kani::cover!(f.load(Ordering::SeqCst) && vshim::consistent(), "the delivery ran the registered flag action");
        kani::cover!(r0 >= 1 && r1 >= 1 && vshim::consistent(), "delivery overlapped the mutator (both threads ran in more than one round)");
        core::mem::forget(f);
    }
}
