//! C15 — the real src/flag.rs + low_level::exit through the real dispatcher.
use crate::c05::SA;
use crate::common::*;
use libc::model::Outcome;
use libc::c_int;
use signal_hook::flag;
use std::sync::atomic::{AtomicBool, AtomicUsize, Ordering};
use std::sync::Arc;

#[allow(non_snake_case)]
pub mod S {
    pub static mut expect_exit: bool = false; // the model says this delivery terminates
    pub static mut status: i32 = 0;
    pub static mut terminated: bool = false;
    pub static mut cond: *const std::sync::atomic::AtomicBool = core::ptr::null();
}

fn terminated() {
    unsafe {
        S::terminated = true;
        let c = (*S::cond).load(Ordering::SeqCst);
        assert!(S::expect_exit, "C15: the process was terminated although the shutdown condition was false when the action ran");
        assert!(c, "C15: terminated with the condition flag false");
        match K::outcome {
            Outcome::Exited { status, hooks_run } => {
                assert!(status == S::status, "C15: the exit status differs from the requested one");
                assert!(!hooks_run, "C15: conditional shutdown ran exit-time hooks (exit instead of _exit)");
            }
            _ => assert!(false, "C15: conditional shutdown ended the process by something other than _exit(status)"),
        }
    }
}

#[cfg(kani)]
pub mod proofs {
    use super::*;

    /// flag::register / register_usize: after a returned delivery the flag holds
    /// the registered value whatever the application wrote before.
    #[kani::proof]
    #[kani::unwind(7)]
    pub fn c15_flags_hold_value() {
        reg::init_globals();
        let fb = Arc::new(AtomicBool::new(kani::any()));
        let fu = Arc::new(AtomicUsize::new(kani::any()));
        let value: usize = kani::any();
        let a = ok(flag::register(SA, Arc::clone(&fb)));
        let b = ok(flag::register_usize(SA, Arc::clone(&fu), value));
        assert!(a.is_some() && b.is_some(), "C15: registering a flag failed");
        let mut step = 0;
        while step < 2 {
            fb.store(kani::any(), Ordering::SeqCst);
            fu.store(kani::any(), Ordering::SeqCst);
            deliver(SA);
            assert!(fb.load(Ordering::SeqCst), "C15: a registered flag is not true after a delivery returned");
            assert!(fu.load(Ordering::SeqCst) == value, "C15: a registered usize flag does not hold the registered value after a delivery");
            step += 1;
        }
        kani::cover!(value == 0, "value zero");
        core::mem::forget((fb, fu));
    }

    /// conditional shutdown + arming flag in both registration orders, every
    /// arm/disarm history of length <= 2 between <= 3 deliveries, any status.
    #[kani::proof]
    #[kani::unwind(7)]
    pub fn c15_conditional_shutdown() {
        conditional_shutdown(3);
    }
    /// the same with histories of length 6
    #[kani::proof]
    #[kani::unwind(8)]
    pub fn c15_conditional_shutdown_len6() {
        conditional_shutdown(6);
    }
    /// The application hands its only strong reference to the registration and
    /// reaches the flag through a `Weak` afterwards (any initial value, every
    /// arm/disarm/deliver history of length 3, shutdown action alone): the process
    /// dies iff the flag is true at the moment the action runs - not what it was
    /// when the action was registered.
    #[kani::proof]
    #[kani::unwind(7)]
    pub fn c15_conditional_shutdown_sole_owner() {
        reg::init_globals();
        let status: c_int = kani::any();
        let init: bool = kani::any();
        let cond = Arc::new(AtomicBool::new(init));
        let weak = Arc::downgrade(&cond);
        unsafe {
            S::status = status;
            S::cond = Arc::as_ptr(&cond);
            vshim::HOOKS.terminated = terminated;
        }
        let r = ok(flag::register_conditional_shutdown(SA, status, cond));
        assert!(r.is_some(), "C15: registering failed");
        let mut c = init;
        let mut step = 0;
        let mut survived = 0;
        while step < 3 {
            let ev: u8 = kani::any();
            kani::assume(ev < 3);
            if ev == 1 || ev == 2 {
                match weak.upgrade() {
                    Some(f) => {
                        f.store(ev == 1, Ordering::SeqCst);
                        c = ev == 1;
                        drop(f);
                    }
                    None => assert!(false, "C15: the registered action no longer holds its condition flag"),
                }
            } else {
                unsafe { S::expect_exit = c };
                deliver(SA);
                assert!(!c, "C15: the process survived a delivery although the shutdown condition was true when the action ran");
                survived += 1;
            }
            step += 1;
        }
        kani::cover!(init && survived == 1, "registered armed, disarmed later, survived a delivery");
        kani::cover!(!init && survived == 2, "registered disarmed, survived two deliveries");
        core::mem::forget(weak);
    }

    fn conditional_shutdown(len: usize) {
        reg::init_globals();
        let status: c_int = kani::any();
        let cond = Arc::new(AtomicBool::new(false));
        let shutdown_first: bool = kani::any();
        unsafe {
            S::status = status;
            S::cond = Arc::as_ptr(&cond);
            vshim::HOOKS.terminated = terminated;
        }
        let (r1, r2) = if shutdown_first {
            (
                ok(flag::register_conditional_shutdown(SA, status, Arc::clone(&cond))),
                ok(flag::register(SA, Arc::clone(&cond))),
            )
        } else {
            (
                ok(flag::register(SA, Arc::clone(&cond))),
                ok(flag::register_conditional_shutdown(SA, status, Arc::clone(&cond))),
            )
        };
        assert!(r1.is_some() && r2.is_some(), "C15: registering failed");
        let mut c = false; // model of the condition
        let mut step = 0;
        let mut survived = 0;
        while step < len {
            let ev: u8 = kani::any();
            kani::assume(ev < 3);
            if ev == 1 {
                cond.store(true, Ordering::SeqCst);
                c = true;
            } else if ev == 2 {
                cond.store(false, Ordering::SeqCst);
                c = false;
            } else {
                // a delivery: actions run in registration order
                let dies = if shutdown_first { c } else { true };
                unsafe { S::expect_exit = dies };
                deliver(SA);
                // the delivery returned
                assert!(!dies, "C15: the process survived a delivery although the shutdown condition was true when the action ran");
                c = true; // the arming action ran
                survived += 1;
                assert!(cond.load(Ordering::SeqCst), "C15: the arming flag is not set after the delivery");
            }
            step += 1;
        }
        kani::cover!(shutdown_first && survived == 1, "shutdown first: survived the first termination signal");
        kani::cover!(shutdown_first && survived == 2, "survived twice thanks to a disarm in between");
        core::mem::forget(cond);
    }
}
