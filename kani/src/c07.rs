//! C06 (concurrent clauses) / C07 — real channel.rs under Lal–Reps with
//! happens-before clocks derived from the *declared* orderings and a
//! destructor-counting payload.
use crate::c06::{groups, qlen, T, NTAG, E_DROPS, E_DUP, E_EARLY_DROP, E_FALSE_EMPTY, E_INVENTED, E_ORDER};
use crate::common::*;
use libc::vshim::{flag, flag_at, now, NT};
use signal_hook::low_level::channel::verif_api as chan;
use signal_hook::low_level::channel::Channel;

/// Payload with a destructor: every Token created must be dropped exactly once.
pub struct Token(pub usize);
impl Drop for Token {
    fn drop(&mut self) {
        unsafe {
            if self.0 < NTAG {
                T::drops[self.0] += 1;
            }
        }
    }
}

pub const NREC: usize = 6;
#[allow(non_snake_case)]
pub mod R {
    use super::NREC;
    // one record per recv() call
    pub static mut n: usize = 0;
    pub static mut start: [usize; NREC] = [0; NREC];
    pub static mut end: [usize; NREC] = [0; NREC];
    pub static mut tag: [usize; NREC] = [0; NREC]; // 0 = reported empty
    pub static mut by: [usize; NREC] = [0; NREC];
    pub static mut discarded: [bool; super::NTAG] = [false; super::NTAG];
    // Harnesses that start from Channel::new() and send at most twice never reuse a
    // cell; there a CONSUMER thread that touches a cell whose previous access
    // (by a producer, executed earlier) lies in a later round is looking at a
    // value from its own future: cell contents are not round-versioned, and such
    // an execution is unrealisable.  usize::MAX: no such claim.
    pub static mut consumer_without_reuse: usize = usize::MAX;
}

pub fn send(ch: &Channel<Token>, tag: usize) {
    unsafe {
        T::sent[tag] = true;
        T::producer[tag] = vshim::tid();
        T::send_start[tag] = now();
        let d0 = T::drops[tag];
        ch.send(Token(tag));
        T::send_end[tag] = now();
        if T::drops[tag] != d0 {
            // dropped inside send(): the channel claimed to be full
            R::discarded[tag] = true;
        }
    }
}

pub fn recv(ch: &Channel<Token>) {
    unsafe {
        let i = R::n;
        R::start[i] = now();
        let r = ch.recv();
        R::end[i] = now();
        R::by[i] = vshim::tid();
        R::tag[i] = 0;
        if let Some(tok) = r {
            let t = tok.0;
            if t == 0 || t >= NTAG || !T::sent[t] {
                flag(E_INVENTED);
            } else {
                R::tag[i] = t;
                T::got[t] += 1;
                if T::got[t] > 1 {
                    flag(E_DUP);
                }
            }
            drop(tok);
        }
        R::n += 1;
    }
}

/// Checks that need every thread's stamps: run after all threads.
/// `outstanding_max`: the largest number of values that can be outstanding in
/// this harness (if < 5, no send may ever be discarded).
pub fn final_checks(ntags_max: usize, outstanding_max: usize) {
    unsafe {
        let k_last = vshim::ST::k - 1;
        let mut t = 1;
        while t <= ntags_max {
            if T::sent[t] && R::discarded[t] && outstanding_max < 5 {
                flag_at(E_EARLY_DROP, T::send_end[t] / NT);
            }
            t += 1;
        }
        let mut i = 0;
        while i < R::n {
            if R::tag[i] == 0 {
                // reported empty: no value whose send completed before this recv
                // began may remain untaken at that point
                let mut t = 1;
                while t <= ntags_max {
                    if T::sent[t] && !R::discarded[t] && T::send_end[t] < R::start[i] {
                        // taken by a recv that finished before this one started?
                        let mut taken_before = false;
                        let mut j = 0;
                        while j < R::n {
                            if R::tag[j] == t && (R::end[j] < R::start[i] || (R::by[j] == R::by[i] && j < i)) {
                                taken_before = true;
                            }
                            // an overlapping recv of another consumer may have taken it: not decidable, accept
                            if R::tag[j] == t && R::by[j] != R::by[i] && !(R::start[j] > R::end[i]) {
                                taken_before = true;
                            }
                            j += 1;
                        }
                        if !taken_before {
                            flag_at(E_FALSE_EMPTY, R::end[i] / NT);
                        }
                    }
                    t += 1;
                }
            } else {
                // order: an earlier recv of the same consumer must not have obtained
                // a value that was sent strictly after this one
                let a = R::tag[i];
                let mut j = 0;
                while j < i {
                    let b = R::tag[j];
                    if b != 0 && R::by[j] == R::by[i] {
                        // b came out before a (same consumer)
                        let same_producer_inverted = T::producer[a] == T::producer[b] && a < b;
                        let a_entirely_before_b = T::send_end[a] < T::send_start[b];
                        if same_producer_inverted || a_entirely_before_b {
                            flag_at(E_ORDER, R::end[i] / NT);
                        }
                    }
                    j += 1;
                }
            }
            i += 1;
        }
    }
}

/// After the channel itself is gone every token was dropped exactly once.
pub fn drop_checks(ntags_max: usize) {
    unsafe {
        let k_last = vshim::ST::k - 1;
        let mut t = 1;
        while t <= ntags_max {
            if T::sent[t] && T::drops[t] != 1 {
                flag_at(E_DROPS, k_last);
            }
            t += 1;
        }
    }
}

#[cfg(kani)]
pub mod proofs {
    use super::*;

    fn verdict() {
        // (see R::consumer_without_reuse)
        let c = unsafe { R::consumer_without_reuse };
        kani::assume(c == usize::MAX || !libc::vshim::cell::future_access(c));
        crate::lr_verdict!(
            "C07",
            (libc::vshim::E_RACE, "two threads access a channel cell without a happens-before edge under the declared orderings"),
            (E_DROPS, "a value passed to send was dropped twice or never"),
            (E_DUP, "C06 clause: a value was obtained twice"),
            (E_INVENTED, "C06 clause: recv returned a value nobody sent"),
            (E_ORDER, "C06 clause: values came out in an order inconsistent with their sends"),
            (E_EARLY_DROP, "C06 clause: a send was discarded with fewer than five values outstanding"),
            (E_FALSE_EMPTY, "C06 clause: recv reported empty although a completed send was untaken"),
        );
    }

    /// 2 producers (1 send each), 1 consumer (2 recvs), K = 3, <= 1 spurious CAS failure.
    #[kani::proof]
    #[kani::stub(core::hint::spin_loop, crate::common::spin_stub)]
    #[kani::stub(alloc::alloc::dealloc_nonnull, noop_dealloc)]
    #[kani::unwind(7)]
    pub fn c07_lr_p2_c1_k3() {
        unsafe { R::consumer_without_reuse = 2 };
        let ch: Channel<Token> = Channel::new();
        vshim::set_mode_lr(3, 1, 1);
        vshim::hb_enable();
        vshim::thread_start(0);
        send(&ch, 1);
        vshim::thread_start(1);
        send(&ch, 2);
        vshim::thread_start(2);
        recv(&ch);
        recv(&ch);
        final_checks(2, 2);
        let got_all = unsafe { T::got[1] == 1 && T::got[2] == 1 };
        let first = unsafe { R::tag[0] };
        let empties = unsafe { (R::tag[0] == 0) as u8 + (R::tag[1] == 0) as u8 };
        let k_used = unsafe { R::end[1] / NT };
        drop(ch);
        drop_checks(2);
        verdict();
        kani::cover!(got_all, "both values received");
        kani::cover!(first == 2, "the second producer's value came out first");
        kani::cover!(empties >= 1 && k_used == 2, "a recv reported empty and the consumer used all rounds");
    }

    /// Two producers on two threads (the documented multi-producer mode: the same
    /// handler running on two threads), one send each; the channel is dropped
    /// afterwards.  K = 3, <= 1 spurious CAS failure.
    #[kani::proof]
    #[kani::stub(core::hint::spin_loop, crate::common::spin_stub)]
    #[kani::stub(alloc::alloc::dealloc_nonnull, noop_dealloc)]
    #[kani::unwind(7)]
    pub fn c07_lr_p2_k3() {
        let ch: Channel<Token> = Channel::new();
        vshim::set_mode_lr(3, 1, 1);
        vshim::hb_enable();
        vshim::thread_start(0);
        send(&ch, 1);
        vshim::thread_start(1);
        send(&ch, 2);
        final_checks(2, 2);
        let k_used = unsafe { T::send_end[2] / NT };
        let overlapped = unsafe { T::send_start[2] < T::send_end[1] && T::send_start[1] < T::send_end[2] };
        drop(ch);
        drop_checks(2);
        verdict();
        kani::cover!(overlapped, "the two sends overlapped in time");
        kani::cover!(k_used == 2, "the second producer used all rounds");
    }

    /// The same two producers on a channel that has already carried a value: a
    /// sequential send + recv first (the slot it used has been recycled - whatever
    /// the implementation does with recycled slots is in effect), then the two
    /// overlapping sends.  Starts from `Channel::new()`: needs no state-construction
    /// hook, so it also runs in the fallback build.
    #[kani::proof]
    #[kani::stub(core::hint::spin_loop, crate::common::spin_stub)]
    #[kani::stub(alloc::alloc::dealloc_nonnull, noop_dealloc)]
    #[kani::unwind(7)]
    pub fn c07_lr_p2_after_recv_k3() {
        let ch: Channel<Token> = Channel::new();
        ch.send(Token(3));
        let r = ch.recv();
        let got3 = match r {
            Some(ref t) => t.0 == 3,
            None => false,
        };
        drop(r);
        assert!(got3 && unsafe { T::drops[3] } == 1, "C07: a value sent and received sequentially was not handed over and dropped exactly once");
        vshim::set_mode_lr(3, 1, 1);
        vshim::hb_enable();
        vshim::thread_start(0);
        send(&ch, 1);
        vshim::thread_start(1);
        send(&ch, 2);
        final_checks(2, 2);
        let k_used = unsafe { T::send_end[2] / NT };
        let overlapped = unsafe { T::send_start[2] < T::send_end[1] && T::send_start[1] < T::send_end[2] };
        drop(ch);
        drop_checks(2);
        verdict();
        kani::cover!(overlapped, "the two sends overlapped in time");
        kani::cover!(k_used == 2, "the second producer used all rounds");
    }

    /// 1 producer (2 sends), 1 consumer (2 recvs), K = 3.
    #[kani::proof]
    #[kani::stub(core::hint::spin_loop, crate::common::spin_stub)]
    #[kani::stub(alloc::alloc::dealloc_nonnull, noop_dealloc)]
    #[kani::unwind(7)]
    pub fn c07_lr_p1x2_c1_k3() {
        unsafe { R::consumer_without_reuse = 1 };
        let ch: Channel<Token> = Channel::new();
        vshim::set_mode_lr(3, 1, 1);
        vshim::hb_enable();
        vshim::thread_start(0);
        send(&ch, 1);
        send(&ch, 2);
        vshim::thread_start(1);
        recv(&ch);
        recv(&ch);
        final_checks(2, 2);
        let got_all = unsafe { T::got[1] == 1 && T::got[2] == 1 };
        let empties = unsafe { (R::tag[0] == 0) as u8 + (R::tag[1] == 0) as u8 };
        let k_used = unsafe { R::end[1] / NT };
        drop(ch);
        drop_checks(2);
        verdict();
        kani::cover!(got_all, "both values received");
        kani::cover!(empties >= 1 && k_used == 2, "a recv reported empty and the consumer used all rounds");
    }

    /// Reuse of a cell: the consumer takes the only queued value, the producer's
    /// send then reuses that very cell (only one index circulates).
    #[kani::proof]
    #[kani::stub(core::hint::spin_loop, crate::common::spin_stub)]
    #[kani::stub(alloc::alloc::dealloc_nonnull, noop_dealloc)]
    #[kani::unwind(7)]
    pub fn c07_lr_reuse_k3() {
        // full = [1], empty = [], indices 2..5 in flight forever (paused operations)
        let ch: Channel<Token> = chan::from_raw(0, 1, [Some(Token(2)), None, None, None, None]);
        unsafe {
            T::sent[2] = true;
            T::send_end[2] = 0;
        }
        vshim::set_mode_lr(3, 1, 1);
        vshim::hb_enable();
        vshim::thread_start(0);
        recv(&ch);
        vshim::thread_start(1);
        send(&ch, 1);
        let reused = unsafe { !R::discarded[1] };
        let took = unsafe { R::tag[0] == 2 };
        // here a discard is legitimate: 4 indices in flight + 1 queued = 5 outstanding
        final_checks(2, 5);
        core::mem::forget(ch);
        unsafe {
            // token 9 dropped by the consumer exactly once (if taken); token 1 lives in the forgotten channel or was discarded
            if took && T::drops[2] != 1 {
                flag_at(E_DROPS, vshim::ST::k - 1);
            }
            if !reused && T::drops[1] != 1 {
                flag_at(E_DROPS, vshim::ST::k - 1);
            }
        }
        verdict();
        kani::cover!(took && reused, "the producer reused the cell the consumer had just emptied");
        kani::cover!(took && !reused, "the producer found no free slot");
    }
}
