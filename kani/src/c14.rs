//! C14 — every checked entry point refuses forbidden signals (panic) and
//! kernel-rejected numbers (Err) before anything changes; the unchecked entry
//! points pass the kernel's verdict through.
use crate::c05::{install, SA, SB};
use crate::common::*;
use libc::model::{kernel_rejects, open_fd, FdKind};
use libc::vshim::sync::ARCS;
use libc::c_int;
use signal_hook::flag;
use signal_hook::low_level::pipe::register_raw;
use signal_hook_registry::{register, register_sigaction, register_signal_unchecked, register_unchecked, FORBIDDEN};
use std::sync::atomic::{AtomicBool, AtomicUsize};
use std::sync::Arc;

pub const FD: c_int = 3;
static mut ARMED: bool = false;

/// While armed, any state-changing event (disposition change, snapshot
/// publication, descriptor write/close/flag change) is a violation.
fn state_change(what: u8) {
    unsafe {
        if ARMED {
            assert!(what != libc::vshim::CH_SIGACTION, "C14: a refused registration changed a signal disposition before refusing");
            assert!(what != libc::vshim::CH_PUBLISH, "C14: a refused registration published a registry change before refusing");
            assert!(what != libc::vshim::CH_WRITE, "C14: a refused registration wrote to the descriptor it was given");
        }
    }
}

fn forbidden(sig: c_int) -> bool {
    sig == libc::SIGKILL || sig == libc::SIGSTOP || sig == libc::SIGILL || sig == libc::SIGFPE || sig == libc::SIGSEGV
}

/// Call checked entry point number `e` with `sig`; returns whether it returned Ok.
fn call_entry(e: u8, sig: c_int, flag_b: &Arc<AtomicBool>, flag_u: &Arc<AtomicUsize>) -> Option<bool> {
    match e {
        0 => Some(ok(unsafe { register(sig, || hit(1)) }).is_some()),
        1 => Some(ok(unsafe { register_sigaction(sig, |_| hit(1)) }).is_some()),
        2 => Some(ok(flag::register(sig, Arc::clone(flag_b))).is_some()),
        3 => Some(ok(flag::register_usize(sig, Arc::clone(flag_u), 5)).is_some()),
        4 => Some(ok(flag::register_conditional_shutdown(sig, 1, Arc::clone(flag_b))).is_some()),
        5 => Some(ok(flag::register_conditional_default(sig, Arc::clone(flag_b))).is_some()),
        6 => Some(ok(register_raw(sig, FD)).is_some()),
        _ => None,
    }
}

#[cfg(kani)]
pub mod proofs {
    use super::*;

    fn pre_state(other_registered: bool) {
        pre_state2(other_registered, 0)
    }
    /// `also_slot`: a signal that already has a slot (e.g. because somebody used
    /// an unchecked entry point for it earlier and removed the action again)
    fn pre_state2(other_registered: bool, also_slot: c_int) {
        reg::init_globals();
        if other_registered || also_slot != 0 {
            let mut b = reg::StateBuilder::new();
            if other_registered {
                b.slot(SB, 0, 0);
                install(SB);
                b.action(SB, 1, reg::action_from(|_| hit(9)));
            }
            if also_slot != 0 {
                b.slot(also_slot, 0, 0);
                install(also_slot);
            }
            b.publish(2);
        }
        open_fd(FD as usize, FdKind::Stream, 3, 0, false);
        unsafe { vshim::HOOKS.state_change = state_change };
    }

    /// forbidden signal x one checked entry point: the call never returns and
    /// nothing is changed before the refusal (also when the signal already has a
    /// slot because an unchecked entry point took it over earlier).
    fn forbidden_refused(e: u8) {
        let sig: c_int = kani::any();
        kani::assume(forbidden(sig));
        let has_slot: bool = kani::any();
        kani::assume(!has_slot || (sig != libc::SIGKILL && sig != libc::SIGSTOP));
        pre_state2(false, if has_slot { sig } else { 0 });
        assert!(FORBIDDEN.contains(&sig), "C14: the library's list of forbidden signals lacks KILL/STOP/ILL/FPE/SEGV");
        let fb = Arc::new(AtomicBool::new(false));
        let fu = Arc::new(AtomicUsize::new(0));
        unsafe { ARMED = true };
        let r = call_entry(e, sig, &fb, &fu);
        kani::cover!(true, "unreachable: a checked entry point returned for a forbidden signal instead of panicking");
        core::mem::forget((r, fb, fu));
    }

    /// a number the kernel rejects (whole c_int range) x one checked entry point
    fn rejected_is_err(e: u8) {
        let other: bool = kani::any();
        pre_state(other);
        unsafe { ARCS::real_drop = true };
        let sig: c_int = kani::any();
        kani::assume(!forbidden(sig) && kernel_rejects(sig, true));
        let fb = Arc::new(AtomicBool::new(false));
        let fu = Arc::new(AtomicUsize::new(0));
        let arcs0 = unsafe { ARCS::next };
        let next0 = reg::next_id();
        unsafe { ARMED = true };
        let r = call_entry(e, sig, &fb, &fu);
        unsafe { ARMED = false };
        assert!(r == Some(false), "C14: a number the OS rejects was not refused with an error");
        assert!(!reg::view(sig).present && reg::next_id() == next0, "C14: a rejected registration left something in the registry");
        assert!(reg::view(SB).present == other && (!other || reg::view(SB).n == 1), "C14: a rejected registration disturbed another signal's registrations");
        assert!(Arc::strong_count(&fb) == 1 && Arc::strong_count(&fu) == 1, "C14: a rejected registration kept a reference to the caller's flag");
        unsafe {
            let made = ARCS::next - arcs0;
            assert!(made <= 1, "C14: more than one action object was created");
            if made == 1 && arcs0 < 12 {
                assert!(ARCS::released[arcs0] == 1, "C14: the would-be action of a rejected registration was not released exactly once");
            }
            if e == 6 {
                assert!(K::fds[FD as usize].closes == 1, "C14: the descriptor of a rejected self-pipe registration was not closed exactly once");
            }
        }
        kani::cover!(sig < 0, "negative number");
        kani::cover!(sig > 64, "beyond the last signal");
        kani::cover!(sig == 33 && other, "reserved by the C library, another signal registered");
        core::mem::forget((fb, fu));
    }

    macro_rules! per_entry {
        ($($f:ident, $r:ident, $e:expr, $u:expr;)*) => {$(
            #[kani::proof]
            #[kani::unwind($u)]
            pub fn $f() {
                forbidden_refused($e);
            }
            #[kani::proof]
            #[kani::unwind($u)]
            pub fn $r() {
                rejected_is_err($e);
            }
        )*};
    }
    per_entry! {
        c14_forbidden_registry_register, c14_rejected_registry_register, 0, 7;
        c14_forbidden_registry_register_sigaction, c14_rejected_registry_register_sigaction, 1, 7;
        c14_forbidden_flag_register, c14_rejected_flag_register, 2, 7;
        c14_forbidden_flag_register_usize, c14_rejected_flag_register_usize, 3, 7;
        c14_forbidden_flag_conditional_shutdown, c14_rejected_flag_conditional_shutdown, 4, 7;
        c14_forbidden_flag_conditional_default, c14_rejected_flag_conditional_default, 5, 40;
        c14_forbidden_pipe_register_raw, c14_rejected_pipe_register_raw, 6, 7;
    }

    /// the unchecked entry points accept forbidden numbers and pass the kernel's verdict through
    #[kani::proof]
    #[kani::unwind(7)]
    pub fn c14_unchecked_pass_verdict_through() {
        pre_state(false);
        let sig: c_int = kani::any();
        kani::assume(forbidden(sig));
        let siginfo_variant: bool = kani::any();
        let r = if siginfo_variant {
            ok(unsafe { register_unchecked(sig, |_| hit(1)) })
        } else {
            ok(unsafe { register_signal_unchecked(sig, || hit(1)) })
        };
        let kernel_refuses = sig == libc::SIGKILL || sig == libc::SIGSTOP;
        assert!(r.is_some() == !kernel_refuses, "C14: an unchecked entry point did not pass the OS's verdict through");
        if r.is_some() {
            assert!(reg::view(sig).present && reg::view(sig).n == 1, "C14: an accepted unchecked registration is not in the registry");
        } else {
            assert!(!reg::view(sig).present, "C14: a refused unchecked registration left a slot behind");
        }
        kani::cover!(sig == libc::SIGSEGV && r.is_some(), "SIGSEGV accepted by the unchecked entry point");
        kani::cover!(sig == libc::SIGKILL && r.is_none(), "SIGKILL refused by the kernel");
    }
}
