//! C18 — registry calls terminate: the writer's grace-period barrier completes
//! on its own once readers are gone, locks are taken in one order, a poisoned
//! writer mutex does not wedge later mutators.
use crate::c01::Canary;
use crate::c05::{SA, SB};
use crate::common::*;
use libc::vshim::{eh, flag};
use signal_hook_registry::{register, unregister};

pub const E_STUCK: u32 = eh(0);
pub const E_ORDER: u32 = eh(1);

fn stuck() {
    assert!(false, "C18: the writer keeps spinning although no reader is active and nobody else can run");
}

/// LR: the running thread spins in the last round although every reader is done.
fn lr_stuck_check() {
    unsafe {
        if vshim::ST::round + 1 == vshim::ST::k && vshim::ST::spins >= 2 {
            flag(E_STUCK);
            // A writer that never leaves this loop never reaches the harness's
            // verdict (the spin bound cuts the path), so the verdict is taken here:
            // the writer is the last thread and is in the last round, every guess
            // is final.
            assert!(!vshim::consistent(), "C18: [replayable] the writer still spins in a round in which every overlapping reader has finished");
        }
    }
}

/// A mutator must not hold a read section of either registry lock at the moment
/// it takes (or waits for) a writer mutex: another mutator that holds the mutex
/// waits in its barrier for exactly that section - both would wait forever.
static mut HELD_SECTION_AT_LOCK: bool = false;
static mut WRITER_LOCKS_TAKEN: u32 = 0;
fn on_writer_lock(id: usize) {
    if id == reg::data_mutex_var() || id == reg::fallback_mutex_var() {
        unsafe {
            WRITER_LOCKS_TAKEN += 1;
            if reg::data_readers() != 0 || reg::fallback_readers() != 0 {
                HELD_SECTION_AT_LOCK = true;
            }
        }
    }
}

#[cfg(kani)]
pub mod proofs {
    use super::*;

    /// every mutator entry point, no delivery in flight: no spinning at all (the
    /// `stuck` hook), and no read section held while a writer mutex is taken
    #[kani::proof]
    #[kani::unwind(10)]
    pub fn c18_q_mutators_wait_for_nobody() {
        use signal_hook_registry::unregister_signal;
        reg::init_globals();
        unsafe {
            vshim::HOOKS.stuck = stuck;
            vshim::HOOKS.on_lock = on_writer_lock;
        }
        let a = ok(unsafe { register(SA, || hit(1)) });
        let b = ok(unsafe { register(SA, || hit(2)) });
        let c = ok(unsafe { register(SB, || hit(3)) });
        assert!(a.is_some() && b.is_some() && c.is_some(), "C18: a mutator fails");
        assert!(unregister(a.unwrap()), "C18: unregister of a live id returned false");
        assert!(!unregister(a.unwrap()), "C18: unregister of a stale id returned true");
        #[allow(deprecated)]
        let r = unregister_signal(SB);
        assert!(r, "C18: unregister_signal removed nothing");
        assert!(!unsafe { HELD_SECTION_AT_LOCK }, "C18: a mutator takes a writer mutex while it holds a read section (two such mutators wait for each other forever)");
        assert!(vshim::ops(vshim::OP_SPIN) == 0 && !vshim::spin_stuck(), "C18: a mutator spins although no delivery is in flight");
        kani::cover!(unsafe { WRITER_LOCKS_TAKEN } >= 6, "every mutator took the writer mutex");
    }

    /// sequential: from any generation value and idle reader slots one store completes without waiting
    #[kani::proof]
    #[kani::unwind(6)]
    pub fn c18_seq_barrier_completes_when_idle() {
        let l = reg::Lock::new(Canary(0));
        l.set_generation(kani::any());
        unsafe {
            vshim::HOOKS.stuck = stuck;
            crate::c01::G::is_writer[0] = true;
        }
        let mut w = l.write();
        w.store(Canary(1));
        w.store(Canary(2));
        drop(w);
        let g = l.read();
        assert!(g.0 == 2, "C18: store did not publish");
        drop(g);
        assert!(!vshim::spin_stuck(), "C18: the writer keeps spinning although no reader is active and nobody else can run");
        kani::cover!(vshim::ops(vshim::OP_SPIN) == 0, "no spinning needed");
        core::mem::forget(l);
    }

    /// Lal-Reps: two readers that are finished by round K-2; the writer (running
    /// last in every round) must get through its barrier at the latest in round
    /// K-1, where nothing can change any more.
    #[kani::proof]
    #[kani::stub(alloc::alloc::dealloc_nonnull, noop_dealloc)]
    #[kani::unwind(8)]
    pub fn c18_lr_barrier_progress() {
        let l = reg::Lock::new(Canary(0));
        vshim::set_mode_lr(3, 4, 0);
        unsafe { crate::c01::G::is_writer[2] = true };
        let a = crate::c01::reader(&l, 0);
        kani::assume(vshim::round() + 2 <= 3);
        let b = crate::c01::reader(&l, 1);
        kani::assume(vshim::round() + 2 <= 3);
        vshim::thread_start(2);
        unsafe { vshim::HOOKS.stuck = lr_stuck_check };
        let mut w = l.write();
        w.store(Canary(1));
        let done_round = vshim::round();
        drop(w);
        let spins = vshim::ops(vshim::OP_SPIN);
        crate::lr_verdict!(
            "C18",
            (E_STUCK, "the writer still spins in a round in which every overlapping reader has finished"),
        );
        kani::cover!(spins >= 1 && done_round == 2, "the writer had to wait for a reader and finished in the last round");
        kani::cover!(a == 0 && b == 0, "both readers hold the old snapshot");
        core::mem::forget(l);
    }

    /// poisoned writer mutexes (an earlier mutator panicked): later mutators still work
    #[kani::proof]
    #[kani::unwind(10)]
    pub fn c18_registry_tolerates_poison() {
        reg::init_globals();
        reg::poison_registry_locks();
        let a = ok(unsafe { register(SA, || hit(1)) });
        assert!(a.is_some(), "C18: a mutator fails after another one panicked (poisoned lock)");
        deliver(SA);
        assert!(unsafe { L::n } == 1, "C18: registration after a panic elsewhere is not effective");
        assert!(unregister(a.unwrap()), "C18: unregister fails after another mutator panicked");
        // lock order: the data lock is always taken before the fallback lock
        let d = reg::data_mutex_var();
        let f = reg::fallback_mutex_var();
        let mut i = 0;
        let mut inverted = false;
        let mut seen = false;
        while i < 8 {
            if i < vshim::lock_edges() {
                let (x, y) = vshim::lock_edge(i);
                if x == f && y == d {
                    inverted = true;
                }
                if x == d && y == f {
                    seen = true;
                }
            }
            i += 1;
        }
        assert!(!inverted, "C18: the two registry locks are taken in both orders (deadlock between mutators)");
        kani::cover!(seen, "the fallback lock was taken inside the data lock");
    }
}
