use libc::c_int;
pub use libc::model::{self, K};
pub use libc::vshim::{self, ST};
pub use signal_hook_registry::verif_api as reg;

/// No-op deallocation: keeps freed boxes mapped so that a reader "earlier in
/// time" but later in execution order can still be run (DESIGN §2.3, LR).
#[cfg(kani)]
pub unsafe fn noop_dealloc(_p: core::ptr::NonNull<u8>, _l: core::alloc::Layout) {}

pub fn any_bool() -> bool {
    vshim::any_bool()
}
