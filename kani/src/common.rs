use libc::c_int;
pub use libc::model::{self, K};
pub use libc::vshim::{self, ST};
pub use signal_hook_registry::verif_api as reg;

/// No-op deallocation: keeps freed boxes mapped so that a reader "earlier in
/// time" but later in execution order can still be run (DESIGN §2.3, LR).
#[cfg(kani)]
pub unsafe fn noop_dealloc(_p: core::ptr::NonNull<u8>, _l: core::alloc::Layout) {}

pub fn any_bool() -> bool {
    vshim::any_bool()
}

/// Native playback builds (`cargo kani playback` = a test build) never free:
/// the Kani runs virtualise frees (dealloc stub) so that a use after the
/// *logical* release can be observed; the native replay must see the same.
#[cfg(test)]
mod leaky {
    use std::alloc::{GlobalAlloc, Layout, System};
    pub struct Leaky;
    unsafe impl GlobalAlloc for Leaky {
        // The Kani runs of C03 stub the allocator entry points to notice heap
        // traffic inside a delivery; stubs are not applied to playback tests, so
        // the native allocator notices it instead.
        unsafe fn alloc(&self, l: Layout) -> *mut u8 {
            if libc::vshim::in_delivery() {
                libc::vshim::flag(libc::vshim::E_ALLOC_IN_DELIVERY);
            }
            System.alloc(l)
        }
        unsafe fn dealloc(&self, _p: *mut u8, _l: Layout) {
            if libc::vshim::in_delivery() {
                libc::vshim::flag(libc::vshim::E_ALLOC_IN_DELIVERY);
            }
        }
    }
    #[global_allocator]
    static A: Leaky = Leaky;
}

/// Verdict of a Lal-Reps harness.  The sound one: an error counts as soon as the
/// guessed prefix up to its round is realisable.  On a separate branch (Kani's
/// `assert!` also assumes its condition, so the first set would mask the second),
/// the same errors under full consistency of all rounds: a counterexample to
/// these is a complete real schedule and replays natively without junk.
#[macro_export]
macro_rules! lr_verdict {
    ($pid:literal, $( ($bit:expr, $msg:literal) ),* $(,)?) => {{
        let bad = $crate::common::vshim::lr_violation();
        let e = $crate::common::vshim::errors();
        if kani::any::<bool>() {
            $( assert!(!$crate::common::vshim::lr_violation_of($bit), concat!($pid, ": ", $msg)); )*
            assert!(!bad, concat!($pid, ": another error flag is set (see shim error codes)"));
        } else {
            kani::assume($crate::common::vshim::consistent());
            $( assert!(e & $bit == 0, concat!($pid, ": [replayable] ", $msg)); )*
        }
    }};
}

/// Results that may hold an io::Error are never dropped or formatted in a
/// harness (io::Error's drop glue and Debug blow CBMC up, DESIGN §2.6).
pub fn ok<T>(r: Result<T, std::io::Error>) -> Option<T> {
    match r {
        Ok(x) => Some(x),
        Err(e) => {
            core::mem::forget(e);
            None
        }
    }
}

pub fn noop_mut<T>(_: &mut T) {}

/// `core::hint::spin_loop` (and `std::sync::atomic::spin_loop_hint`, which calls
/// it) compile to a pause intrinsic Kani does not support; code under test that
/// spins goes through the shim's spin accounting instead (stubbed in the
/// channel harnesses, where waiting is the subject of C08).
pub fn spin_stub() {
    vshim::spin()
}

// ---- invocation log shared by the registry-level harnesses ------------------
pub const NLOG: usize = 8;
#[allow(non_snake_case)]
pub mod L {
    use super::NLOG;
    pub static mut log: [u8; NLOG] = [0; NLOG]; // action tags in invocation order
    pub static mut stamp: [u32; NLOG] = [0; NLOG];
    pub static mut n: usize = 0;
}
pub fn hit(tag: u8) {
    unsafe {
        if L::n < NLOG {
            L::log[L::n] = tag;
            L::stamp[L::n] = vshim::next_stamp();
        }
        L::n += 1;
    }
}
/// `hit`, and note whether the action runs outside every read section of the
/// registry's data lock (then a concurrent removal cannot know it is running).
pub static mut RAN_OUTSIDE_SECTION: bool = false;
pub fn hit_in_section(tag: u8) {
    if reg::data_readers() == 0 {
        unsafe { RAN_OUTSIDE_SECTION = true };
    }
    hit(tag);
}
pub fn clear_log() {
    unsafe { L::n = 0 }
}

/// One kernel delivery of `sig` to whatever disposition the model holds; if it
/// is the library's dispatcher, the real `handler` runs (with a zeroed siginfo).
pub fn deliver(sig: c_int) {
    unsafe {
        let mut info: libc::siginfo_t = core::mem::zeroed();
        info.si_signo = sig;
        deliver_info(sig, &mut info);
    }
}
pub fn deliver_info(sig: c_int, info: *mut libc::siginfo_t) {
    unsafe {
        // (the handler word may be round-versioned in LR harnesses: ask the model)
        let h = libc::model::handler_of(sig as usize);
        if h == reg::handler_addr() {
            vshim::delivery_enter();
            reg::call_handler(sig, info, 0x77 as *mut libc::c_void);
            vshim::delivery_exit();
        }
    }
}

/// NEST filter for deliveries nested in registry mutators: a nested delivery is
/// complete (reader counters are back to their old values afterwards), so
/// arriving before any of the counter loads of `update_seen` is indistinguishable
/// from arriving before the next other shim point.  Skipping those points keeps
/// the spin loop of `write_barrier` from multiplying the inlined dispatcher.
pub static mut COUNTER_VARS: [usize; 4] = [usize::MAX; 4];
pub fn skip_point(kind: u8, var: usize) -> bool {
    unsafe {
        kind == vshim::OP_LOAD
            && (var == COUNTER_VARS[0] || var == COUNTER_VARS[1] || var == COUNTER_VARS[2] || var == COUNTER_VARS[3])
    }
}
pub fn arm_filter() {
    unsafe { COUNTER_VARS = reg::lock_counter_vars() };
}

/// Formatting is never the subject of a property here; stubbing the formatter
/// entry point keeps `dyn Debug/Display` fan-out out of the encoding
/// (guidance: output formatting caused most forked states in comparable work).
pub fn no_fmt_write(_out: &mut dyn core::fmt::Write, _args: core::fmt::Arguments<'_>) -> core::fmt::Result {
    Ok(())
}
