//! C16 — the real src/low_level/signal_details.rs over the process model whose
//! default-disposition table is generated from the live kernel by `check`.
use crate::common::*;
use libc::model::{Outcome, ACT_CONT, ACT_IGN, ACT_STOP, ACT_TERM, DEFAULT_ACTION};
use libc::c_int;
use signal_hook::low_level::{emulate_default_handler, signal_name};

include!(concat!(env!("CARGO_MANIFEST_DIR"), "/src/signal_names.in"));

#[allow(non_snake_case)]
pub mod P {
    pub static mut sig: i32 = 0;
    pub static mut known: bool = false;
    pub static mut want: u8 = 0;
}

fn terminated() {
    unsafe {
        let sig = P::sig;
        assert!(P::known, "C16: emulating the default action of an unknown signal number ended the process");
        assert!(P::want == ACT_TERM, "C16: emulation ended the process although this signal's default disposition on this kernel does not terminate");
        match K::outcome {
            Outcome::Killed { sig: s } => {
                assert!(s == sig, "C16: the process was terminated by a different signal than the emulated one");
            }
            _ => assert!(false, "C16: emulation of a terminating default did not end with 'killed by that very signal' (abort/exit instead)"),
        }
    }
}

#[cfg(kani)]
pub mod proofs {
    use super::*;

    /// every signal number, from normal context and from inside the signal's own
    /// action (handler installed, signal blocked).
    #[kani::proof]
    #[kani::unwind(70)]
    pub fn c16_emulate_default_all_signals() {
        let sig: c_int = kani::any();
        let in_own_handler: bool = kani::any();
        let name = signal_name(sig);
        let known = name.is_some();
        let valid = sig >= 1 && sig <= 64;
        unsafe {
            P::sig = sig;
            P::known = known;
            P::want = if valid { DEFAULT_ACTION[sig as usize] } else { 255 };
            vshim::HOOKS.terminated = terminated;
            if valid {
                // a handler is installed (the caller is typically one of its actions)
                K::disp[sig as usize].handler = 0x4000;
                K::disp[sig as usize].flags = libc::SA_SIGINFO;
                if in_own_handler && sig != libc::SIGKILL && sig != libc::SIGSTOP {
                    K::blocked |= 1u64 << (sig - 1);
                }
            }
        }
        if let Some(n) = name {
            // a known name is the platform's name for that number
            assert!(valid, "C16: a name is reported for a number that is not a signal");
            assert!(name_matches(sig, n), "C16: signal_name disagrees with the platform's name for that number");
        }
        let sets0 = unsafe { K::sigaction_sets };
        let r = ok(emulate_default_handler(sig));
        // it returned
        let stops = unsafe { K::stops };
        if !known {
            assert!(r.is_none(), "C16: emulate_default_handler accepted a signal it does not know");
            assert!(unsafe { K::sigaction_sets } == sets0 && stops == 0, "C16: an unknown signal still changed dispositions or stopped the process");
        } else {
            let want = unsafe { P::want };
            assert!(want != ACT_TERM, "C16: emulation returned although this signal's default disposition on this kernel terminates the process");
            if want == ACT_STOP {
                assert!(stops == 1, "C16: the default is 'stop' but the process was not stopped exactly once");
            } else {
                assert!(stops == 0, "C16: the process was stopped although the default is ignore/continue");
            }
            assert!(r.is_some(), "C16: emulation of a known, non-terminating default reported an error");
        }
        kani::cover!(known && sig == libc::SIGTSTP && in_own_handler, "stop signal from its own handler");
        kani::cover!(known && sig == libc::SIGCHLD, "ignored by default");
        kani::cover!(!known && valid, "valid but unnamed (real-time) signal");
        kani::cover!(!valid, "not a signal number");
    }

    /// terminating defaults separately (the call does not return): reachability witness
    #[kani::proof]
    #[kani::unwind(70)]
    pub fn c16_terminating_witness() {
        let sig: c_int = libc::SIGTERM;
        unsafe {
            P::sig = sig;
            P::known = true;
            P::want = DEFAULT_ACTION[sig as usize];
            vshim::HOOKS.terminated = terminated;
            K::disp[sig as usize].handler = 0x4000;
            K::blocked |= 1u64 << (sig - 1);
        }
        let r = ok(emulate_default_handler(sig));
        kani::cover!(true, "unreachable: emulate_default_handler(SIGTERM) returned");
        core::mem::forget(r);
    }
}
