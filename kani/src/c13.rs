//! C13 — the real src/low_level/pipe.rs over the descriptor model: one
//! non-blocking one-byte wake per delivery, for every descriptor kind and fill
//! level; the descriptor is closed exactly once and never written afterwards.
use crate::c05::SA;
use crate::common::*;
use libc::model::{open_fd, FdKind};
use libc::c_int;
use signal_hook::low_level::pipe::register_raw;
use signal_hook::low_level::unregister;

pub const FD: c_int = 3;

/// The model cuts a path on which a write sleeps on a full descriptor; the
/// verdict for that path is taken here.
pub fn wblock_hook(_fd: c_int) {
    assert!(false, "C13: the wake-up write could block (neither MSG_DONTWAIT nor O_NONBLOCK)");
}

#[cfg(kani)]
pub mod proofs {
    use super::*;

    fn any_kind() -> FdKind {
        let k: u8 = kani::any();
        kani::assume(k < 4);
        match k {
            0 => FdKind::Pipe,
            1 => FdKind::Stream,
            2 => FdKind::Dgram,
            _ => FdKind::Regular,
        }
    }

    /// register on a descriptor of the given kind at any fill level, a burst of
    /// 1..=2 deliveries, unregister, one more delivery.
    fn wake_scenario(kind: FdKind, max_burst: u8) {
        reg::init_globals();
        unsafe { libc::vshim::sync::ARCS::real_drop = true };
        unsafe { vshim::HOOKS.wblock = wblock_hook };
        let cap: u32 = 3;
        let fill: u32 = kani::any();
        kani::assume(fill <= cap);
        open_fd(FD as usize, kind, cap, fill, false);
        let id = ok(register_raw(SA, FD));
        assert!(id.is_some(), "C13: registering a self-pipe on a valid descriptor failed");
        let f = unsafe { K::fds[FD as usize] };
        assert!(f.closes == 0 && f.write_calls == 0, "C13: registration itself wrote to or closed the descriptor");
        let burst: u8 = kani::any();
        kani::assume(burst >= 1 && burst <= max_burst);
        let mut d = 0;
        while d < 2 {
            if d < burst && d < max_burst {
                let before = unsafe { K::fds[FD as usize] };
                deliver(SA);
                let after = unsafe { K::fds[FD as usize] };
                assert!(after.write_calls - before.write_calls == 1, "C13: a delivery did not make exactly one write attempt");
                assert!(after.bad_len_writes == 0, "C13: the wake-up is not exactly one byte");
                assert!(after.may_block == before.may_block, "C13: the wake-up write could block (neither MSG_DONTWAIT nor O_NONBLOCK)");
                let readable_before = if kind == FdKind::Dgram { before.msgs } else { before.fill };
                let readable_after = if kind == FdKind::Dgram { after.msgs } else { after.fill };
                if kind != FdKind::Regular {
                    assert!(readable_after <= readable_before + 1, "C13: one delivery produced more than one byte");
                    assert!(readable_after == readable_before + 1 || readable_before >= cap, "C13: a delivery into a descriptor with room produced no byte");
                }
                assert!(after.closes == 0, "C13: the descriptor was closed while its action is registered");
            }
            d += 1;
        }
        assert!(unregister(id.unwrap()), "C13: unregister of the self-pipe action returned false");
        let f = unsafe { K::fds[FD as usize] };
        assert!(f.closes == 1, "C13: the descriptor is not closed exactly once when its action is removed");
        deliver(SA);
        let g = unsafe { K::fds[FD as usize] };
        assert!(g.writes_after_close == 0 && g.write_calls == f.write_calls, "C13: the descriptor was written to after it had been closed");
        assert!(g.closes == 1, "C13: the descriptor was closed twice");
        kani::cover!(fill == cap, "descriptor completely full");
        kani::cover!(fill == 0 && burst == max_burst, "empty descriptor, longest burst");
    }
    #[kani::proof]
    #[kani::unwind(7)]
    pub fn c13_wake_pipe() {
        wake_scenario(FdKind::Pipe, 2);
    }
    #[kani::proof]
    #[kani::unwind(7)]
    pub fn c13_q_wake_pipe() {
        wake_scenario(FdKind::Pipe, 1);
    }
    #[kani::proof]
    #[kani::unwind(7)]
    pub fn c13_wake_stream() {
        wake_scenario(FdKind::Stream, 2);
    }
    #[kani::proof]
    #[kani::unwind(7)]
    pub fn c13_q_wake_stream() {
        wake_scenario(FdKind::Stream, 1);
    }
    #[kani::proof]
    #[kani::unwind(7)]
    pub fn c13_wake_dgram() {
        wake_scenario(FdKind::Dgram, 2);
    }
    #[kani::proof]
    #[kani::unwind(7)]
    pub fn c13_q_wake_dgram() {
        wake_scenario(FdKind::Dgram, 1);
    }
    #[kani::proof]
    #[kani::unwind(7)]
    pub fn c13_wake_regular_file() {
        wake_scenario(FdKind::Regular, 2);
    }
    #[kani::proof]
    #[kani::unwind(7)]
    pub fn c13_q_wake_regular_file() {
        wake_scenario(FdKind::Regular, 1);
    }

    /// rejected registrations: invalid descriptor, fcntl failure, kernel-rejected signal.
    #[kani::proof]
    #[kani::unwind(7)]
    pub fn c13_rejected_registration() {
        reg::init_globals();
        unsafe { libc::vshim::sync::ARCS::real_drop = true };
        let case: u8 = kani::any();
        kani::assume(case < 3);
        let sig: c_int = if case == 2 { 65 } else { SA };
        if case == 0 {
            // never opened: EBADF everywhere
        } else if case == 1 {
            open_fd(FD as usize, FdKind::Pipe, 4, 0, false);
            unsafe { K::fcntl_fail = true };
        } else {
            open_fd(FD as usize, any_kind(), 4, 0, false);
        }
        let r = ok(register_raw(sig, FD));
        assert!(r.is_none(), "C13: a registration that must be rejected succeeded");
        let f = unsafe { K::fds[FD as usize] };
        assert!(f.closes == 1, "C13: a rejected registration did not close the descriptor it was handed exactly once");
        assert!(f.write_calls == 0, "C13: a rejected registration wrote to the descriptor");
        assert!(!reg::view(sig).present || reg::view(sig).n == 0, "C13: a rejected registration left an action behind");
        kani::cover!(case == 0, "invalid descriptor");
        kani::cover!(case == 1, "fcntl failure");
        kani::cover!(case == 2, "signal rejected by the kernel");
    }
}
