//! C06 / C07 / C08 — the real src/low_level/channel.rs.
//!  * one sequential step from any well-formed state (incl. indices in flight)
//!    against a 5-bounded FIFO model                      (C06, SEQ)
//!  * an operation with complete send/recv nested at every shim point and
//!    spurious weak-CAS failures                          (C06 tags, C08, NEST)
//!  * producers/consumers interleaved, Lal–Reps           (C06, C07 with
//!    happens-before clocks and drop counting)
use crate::common::*;
use libc::vshim::{eh, flag, now};
use signal_hook::low_level::channel::verif_api as chan;
use signal_hook::low_level::channel::Channel;

pub const SL: usize = 5;

pub fn groups(w: u16) -> [u16; SL] {
    [w & 7, (w >> 3) & 7, (w >> 6) & 7, (w >> 9) & 7, (w >> 12) & 7]
}
pub fn qlen(w: u16) -> usize {
    let g = groups(w);
    let mut n = 0;
    let mut i = 0;
    while i < SL {
        if g[i] != 0 {
            n += 1;
        }
        i += 1;
    }
    n
}
pub fn contains(w: u16, idx: u16) -> bool {
    let g = groups(w);
    g[0] == idx || g[1] == idx || g[2] == idx || g[3] == idx || g[4] == idx
}
/// Queue word well-formed: bit 15 clear, entries in 1..=5, contiguous from position 0, distinct.
pub fn wf(w: u16) -> bool {
    let g = groups(w);
    let mut ok = w & 0x8000 == 0;
    let mut i = 0;
    while i < SL {
        if g[i] > 5 {
            ok = false;
        }
        if i + 1 < SL && g[i] == 0 && g[i + 1] != 0 {
            ok = false;
        }
        let mut j = i + 1;
        while j < SL {
            if g[i] != 0 && g[i] == g[j] {
                ok = false;
            }
            j += 1;
        }
        i += 1;
    }
    ok
}
/// Representation invariant of a channel with at most `max_inflight` indices in neither queue.
pub fn valid<T>(e: u16, f: u16, cells: &[Option<T>; SL], max_inflight: usize) -> bool {
    let mut ok = wf(e) && wf(f);
    let mut idx = 1u16;
    let mut missing = 0;
    while idx as usize <= SL {
        let in_e = contains(e, idx);
        let in_f = contains(f, idx);
        if in_e && in_f {
            ok = false;
        }
        if !in_e && !in_f {
            missing += 1;
        }
        if in_f && cells[idx as usize - 1].is_none() {
            ok = false;
        }
        if in_e && cells[idx as usize - 1].is_some() {
            ok = false;
        }
        idx += 1;
    }
    ok && missing <= max_inflight
}
pub fn valid_ch<T>(ch: &Channel<T>, max_inflight: usize) -> bool {
    let (e, f) = chan::words(ch);
    let mut ok = wf(e) && wf(f);
    let mut idx = 1u16;
    let mut missing = 0;
    while idx as usize <= SL {
        let in_e = contains(e, idx);
        let in_f = contains(f, idx);
        if in_e && in_f {
            ok = false;
        }
        if !in_e && !in_f {
            missing += 1;
        }
        if in_f && !chan::cell_is_some(ch, idx as usize) {
            ok = false;
        }
        if in_e && chan::cell_is_some(ch, idx as usize) {
            ok = false;
        }
        idx += 1;
    }
    ok && missing <= max_inflight
}
/// Abstraction: the values in `full` order.
pub fn contents(ch: &Channel<u8>) -> [Option<u8>; SL] {
    let (_, f) = chan::words(ch);
    let g = groups(f);
    let mut out = [None; SL];
    let mut i = 0;
    while i < SL {
        if g[i] != 0 && g[i] <= 5 {
            out[i] = chan::cell_peek(ch, g[i] as usize);
        }
        i += 1;
    }
    out
}

// ---------------------------------------------------------------------------
// NEST ghost: tags
// ---------------------------------------------------------------------------
pub const E_DUP: u32 = eh(0);
pub const E_INVENTED: u32 = eh(1);
pub const E_ORDER: u32 = eh(2);
pub const E_EARLY_DROP: u32 = eh(3);
pub const E_FALSE_EMPTY: u32 = eh(4);
pub const E_RACE_CELL: u32 = libc::vshim::E_RACE;
pub const E_DROPS: u32 = eh(5);

pub const NTAG: usize = 12;
#[allow(non_snake_case)]
pub mod T {
    use super::NTAG;
    pub static mut sent: [bool; NTAG] = [false; NTAG]; // send(tag) was called
    pub static mut got: [u8; NTAG] = [0; NTAG]; // times obtained from recv
    pub static mut send_start: [usize; NTAG] = [0; NTAG];
    pub static mut send_end: [usize; NTAG] = [usize::MAX; NTAG];
    pub static mut recv_at: [usize; NTAG] = [usize::MAX; NTAG]; // now() when its recv returned
    pub static mut recv_seq: [u32; NTAG] = [0; NTAG];
    pub static mut recv_by: [usize; NTAG] = [usize::MAX; NTAG];
    pub static mut producer: [usize; NTAG] = [0; NTAG];
    pub static mut seq: u32 = 0;
    pub static mut drops: [u8; NTAG] = [0; NTAG]; // Token destructor runs
    pub static mut next_tag: usize = 6;
}

#[cfg(kani)]
pub mod proofs {
    use super::*;

    fn any_state(max_inflight: usize) -> Channel<u8> {
        let e: u16 = kani::any();
        let f: u16 = kani::any();
        let cells: [Option<u8>; SL] = kani::any();
        kani::assume(valid(e, f, &cells, max_inflight));
        chan::from_raw(e, f, cells)
    }

    /// One send from any well-formed state behaves like a 5-bounded FIFO push.
    #[kani::proof]
    #[kani::stub(core::hint::spin_loop, crate::common::spin_stub)]
    #[kani::unwind(7)]
    pub fn c06_seq_send_step() {
        let ch = any_state(2);
        let (e0, f0) = chan::words(&ch);
        let before = contents(&ch);
        let n_e = qlen(e0);
        let n_f = qlen(f0);
        let v: u8 = kani::any();
        ch.send(v);
        let (e1, f1) = chan::words(&ch);
        let after = contents(&ch);
        if n_e == 0 {
            // full (every index is queued as full or in flight): silently dropped
            assert!(e1 == e0 && f1 == f0 && after == before, "C06: a send into a channel without free slot changed it");
        } else {
            assert!(qlen(e1) == n_e - 1 && qlen(f1) == n_f + 1, "C06: send did not move exactly one slot from empty to full");
            let mut ok = after[n_f] == Some(v);
            let mut i = 0;
            while i < SL {
                if i < n_f && after[i] != before[i] {
                    ok = false;
                }
                i += 1;
            }
            assert!(ok, "C06: send did not append its value behind the queued ones (FIFO push)");
            assert!(groups(f1)[n_f] == groups(e0)[0], "C06: send used a slot other than the head of the empty queue");
        }
        assert!(valid_ch(&ch, 2), "C06: send broke the channel's representation invariant");
        kani::cover!(n_e == 0, "send into a full channel");
        kani::cover!(n_e == 5, "send into an empty channel");
        kani::cover!(n_e == 1 && n_f == 2, "send with two indices in flight");
        core::mem::forget(ch);
    }

    /// One recv from any well-formed state behaves like a FIFO pop.
    #[kani::proof]
    #[kani::stub(core::hint::spin_loop, crate::common::spin_stub)]
    #[kani::unwind(7)]
    pub fn c06_seq_recv_step() {
        let ch = any_state(2);
        let (e0, f0) = chan::words(&ch);
        let before = contents(&ch);
        let n_e = qlen(e0);
        let n_f = qlen(f0);
        let r = ch.recv();
        let (e1, f1) = chan::words(&ch);
        let after = contents(&ch);
        if n_f == 0 {
            assert!(r.is_none(), "C06: recv invented a value from an empty channel");
            assert!(e1 == e0 && f1 == f0, "C06: recv on an empty channel changed it");
        } else {
            assert!(r.is_some(), "C06: recv reported empty although a value was queued");
            assert!(r == before[0], "C06: recv returned something other than the oldest queued value");
            let mut ok = qlen(f1) == n_f - 1 && qlen(e1) == n_e + 1;
            let mut i = 0;
            while i + 1 < SL {
                if after[i] != before[i + 1] {
                    ok = false;
                }
                i += 1;
            }
            assert!(ok, "C06: recv did not pop exactly the head (order of the rest changed)");
            assert!(!chan::cell_is_some(&ch, groups(f0)[0] as usize), "C06: recv left the value in the cell (would be delivered twice)");
        }
        assert!(valid_ch(&ch, 2), "C06: recv broke the channel's representation invariant");
        kani::cover!(n_f == 5, "recv from a full channel");
        kani::cover!(n_f == 0, "recv from an empty channel");
        kani::cover!(n_f == 1 && n_e == 2, "recv with two indices in flight");
        core::mem::forget(ch);
    }

    // ------------------------------------------------------------------
    // NEST: complete operations nested at every shim point of an operation
    // ------------------------------------------------------------------
    const NOUTMAX: usize = 6;
    static mut CH: *const Channel<u8> = core::ptr::null();
    static mut F0: u16 = 0; // full word of the pre-state
    static mut OUT: [u8; NOUTMAX] = [0; NOUTMAX]; // tags in the order they were obtained (any receiver)
    static mut OUT_DEPTH: [u32; NOUTMAX] = [0; NOUTMAX];
    static mut NOUT: usize = 0;
    static mut SENT_DEPTH: [u32; NTAG] = [0; NTAG];

    fn present(ch: &Channel<u8>, tag: u8) -> bool {
        let c = contents(ch);
        c[0] == Some(tag) || c[1] == Some(tag) || c[2] == Some(tag) || c[3] == Some(tag) || c[4] == Some(tag)
    }
    fn known(tag: u8) -> bool {
        unsafe {
            let t = tag as usize;
            (t >= 1 && t <= 5 && contains(F0, tag as u16)) || (t >= 6 && t < T::next_tag && T::sent[t])
        }
    }
    fn do_send(ch: &Channel<u8>) {
        unsafe {
            let tag = T::next_tag;
            T::next_tag += 1;
            T::sent[tag] = true;
            SENT_DEPTH[tag] = vshim::nest_depth();
            ch.send(tag as u8);
            let (e, _) = chan::words(ch);
            if !present(ch, tag as u8) && T::got[tag] == 0 && qlen(e) != 0 {
                flag(E_EARLY_DROP);
            }
        }
    }
    fn do_recv(ch: &Channel<u8>) {
        unsafe {
            match ch.recv() {
                None => {
                    let (_, f) = chan::words(ch);
                    if qlen(f) != 0 {
                        flag(E_FALSE_EMPTY);
                    }
                }
                Some(tag) => {
                    if !known(tag) {
                        flag(E_INVENTED);
                    } else {
                        T::got[tag as usize] += 1;
                        if T::got[tag as usize] > 1 {
                            flag(E_DUP);
                        }
                        if NOUT < NOUTMAX {
                            OUT[NOUT] = tag;
                            OUT_DEPTH[NOUT] = vshim::nest_depth();
                            NOUT += 1;
                        }
                    }
                }
            }
        }
    }
    /// 0 = either, 1 = nested operations are sends only, 2 = recvs only
    static mut NESTED_KIND: u8 = 0;
    fn chan_interrupt(_kind: u8, _var: usize) {
        if !vshim::any_bool() {
            return;
        }
        vshim::consume_interrupt();
        let ch = unsafe { &*CH };
        let k = unsafe { NESTED_KIND };
        if k == 1 {
            do_send(ch);
        } else if k == 2 {
            do_recv(ch);
        } else if vshim::any_bool() {
            do_send(ch);
        } else {
            do_recv(ch);
        }
    }
    fn stuck() {
        assert!(false, "C08: a channel operation spins/yields waiting for another operation to make progress");
    }


    /// After the operation under test: drain sequentially and account for every tag.
    fn nest_finish(ch: &Channel<u8>, inflight: usize, own_ops_before: u32) {
        let own = vshim::ops_at_depth(0) - own_ops_before;
        let allowed = 5 + vshim::cas_fails() + vshim::interrupts_taken();
        assert!(own <= allowed, "C08: more steps in one channel operation than its interruptions and spurious CAS failures explain");
        vshim::set_mode_seq();
        assert!(valid_ch(ch, inflight), "C06: nested operations broke the channel's representation invariant");
        let mut n = 0;
        while n < 5 {
            let (_, f) = chan::words(ch);
            if qlen(f) == 0 {
                break;
            }
            do_recv(ch);
            n += 1;
        }
        unsafe {
            let (_, f) = chan::words(ch);
            assert!(qlen(f) == 0, "C06: the channel cannot be drained");
            // every value that was queued before, and every value whose send did not
            // report a full channel, has been obtained exactly once
            let mut t = 1;
            while t <= 5 {
                if contains(F0, t as u16) && T::got[t] != 1 {
                    flag(E_DUP);
                }
                t += 1;
            }
            // order: values obtained by one receiver level preserve (a) the queue
            // order of the pre-existing values and (b) program order of the sends
            // of one nesting level
            let mut i = 0;
            while i < NOUT {
                let mut j = i + 1;
                while j < NOUT {
                    if OUT_DEPTH[i] == OUT_DEPTH[j] {
                        let a = OUT[i] as usize;
                        let b = OUT[j] as usize;
                        if a <= 5 && b <= 5 {
                            // a obtained before b: a must be ahead of b in the original queue
                            let g = groups(F0);
                            let mut pa = 9;
                            let mut pb = 9;
                            let mut k = 0;
                            while k < SL {
                                if g[k] as usize == a {
                                    pa = k;
                                }
                                if g[k] as usize == b {
                                    pb = k;
                                }
                                k += 1;
                            }
                            if pa > pb {
                                flag(E_ORDER);
                            }
                        } else if a > 5 && b <= 5 {
                            flag(E_ORDER); // a new value overtook one queued before the test began
                        } else if a > 5 && b > 5 && SENT_DEPTH[a] == SENT_DEPTH[b] && a > b {
                            flag(E_ORDER); // same sender level, program order inverted
                        }
                    }
                    j += 1;
                }
                i += 1;
            }
        }
        let e = vshim::errors();
        assert!(e & E_DUP == 0, "C06: a value was obtained twice or lost");
        assert!(e & E_INVENTED == 0, "C06: recv returned a value nobody sent");
        assert!(e & E_ORDER == 0, "C06: values came out in an order inconsistent with their sends");
        assert!(e & E_EARLY_DROP == 0, "C06: a send was discarded although a slot was free");
        assert!(e & E_FALSE_EMPTY == 0, "C06: recv reported empty although a value was queued");
        assert!(!vshim::spin_stuck(), "C08: operation waits for another one");
    }



    /// Same scenario from a concrete pre-state: Channel::new() followed by `queued`
    /// sends (tags 1..=queued).  With the channel on the stack CBMC folds most of
    /// the encoding, so these fit the quick tier; the nested operation and its
    /// position (and one spurious CAS failure) stay symbolic.
    fn nest_concrete(queued: usize, outer_is_send: bool, nested_kind: u8) {
        let ch: Channel<u8> = Channel::new();
        let mut i = 0;
        while i < 5 {
            if i < queued {
                ch.send(i as u8 + 1);
            }
            i += 1;
        }
        unsafe {
            let (_, f) = chan::words(&ch);
            F0 = f;
            CH = &ch;
            NESTED_KIND = nested_kind;
            vshim::HOOKS.interrupt = chan_interrupt;
            vshim::HOOKS.stuck = stuck;
        }
        vshim::set_mode_nest(1, 1, 1);
        let before = vshim::ops_at_depth(0);
        if outer_is_send {
            do_send(&ch);
        } else {
            do_recv(&ch);
        }
        kani::cover!(vshim::interrupts_taken() == 1, "a nested operation ran");
        kani::cover!(vshim::cas_fails() == 1, "a spurious CAS failure");
        nest_finish(&ch, 0, before);
        core::mem::forget(ch);
    }
    /// No nested operation, but up to three spurious weak-CAS failures anywhere in
    /// the operation (send, then recv): nothing is discarded or reported empty
    /// early, steps stay bounded by the failures.
    fn spurious_only(queued: usize) {
        let ch: Channel<u8> = Channel::new();
        let mut i = 0;
        while i < 5 {
            if i < queued {
                ch.send(i as u8 + 1);
            }
            i += 1;
        }
        unsafe {
            let (_, f) = chan::words(&ch);
            F0 = f;
            CH = &ch;
            vshim::HOOKS.stuck = stuck;
        }
        vshim::set_mode_nest(0, 0, 3);
        let before = vshim::ops_at_depth(0);
        do_send(&ch);
        let mid = vshim::ops_at_depth(0);
        let fails_send = vshim::cas_fails();
        assert!(mid - before <= 5 + fails_send, "C08: more steps in one channel operation than its interruptions and spurious CAS failures explain");
        do_recv(&ch);
        kani::cover!(fails_send == 3, "three spurious CAS failures inside one send");
        kani::cover!(vshim::cas_fails() == 3 && fails_send == 0, "three spurious CAS failures inside one recv");
        nest_finish(&ch, 0, mid);
        core::mem::forget(ch);
    }
    #[kani::proof]
    #[kani::stub(core::hint::spin_loop, crate::common::spin_stub)]
    #[kani::unwind(10)]
    pub fn c08_q_spurious_cas_failures() {
        spurious_only(2);
    }

    // ------------------------------------------------------------------
    // Enumeration of the boundaries the symbolic harnesses below do not have:
    // right AFTER each successful CAS of the outer operation (the symbolic ones
    // interrupt before each shim operation).  The index of the boundary is a
    // concrete loop counter, so each run is folded by symex.
    // ------------------------------------------------------------------
    static mut NESTED_OP: u8 = 1; // 1 = send, 2 = recv
    fn enum_interrupt(kind: u8, _var: usize) {
        if kind != vshim::OP_AFTER_CAS || !vshim::is_nth_point() {
            return;
        }
        vshim::consume_interrupt();
        let ch = unsafe { &*CH };
        if unsafe { NESTED_OP } == 1 {
            do_send(ch);
        } else {
            do_recv(ch);
        }
    }
    fn reset_ghost() {
        unsafe {
            T::sent = [false; NTAG];
            T::got = [0; NTAG];
            T::next_tag = 6;
            NOUT = 0;
            SENT_DEPTH = [0; NTAG];
        }
    }
    /// every shim point (before each queue-word load / CAS / cell access) and every
    /// after-CAS boundary, not only the latter
    fn enum_interrupt_all(_kind: u8, _var: usize) {
        if !vshim::is_nth_point() {
            return;
        }
        vshim::consume_interrupt();
        let ch = unsafe { &*CH };
        if unsafe { NESTED_OP } == 1 {
            do_send(ch);
        } else {
            do_recv(ch);
        }
    }
    fn enumerate_points(queued: usize, outer_is_send: bool, nested_op: u8) {
        enumerate_points_with(queued, outer_is_send, nested_op, enum_interrupt, 4)
    }
    fn enumerate_points_with(queued: usize, outer_is_send: bool, nested_op: u8, hook: fn(u8, usize), maxp: usize) {
        #[allow(non_snake_case)]
        let MAXP = maxp;
        unsafe {
            NESTED_OP = nested_op;
            vshim::HOOKS.interrupt = hook;
            vshim::HOOKS.stuck = stuck;
            vshim::ST::nest_post_points = true;
        }
        let mut all_points = false;
        let mut nested_runs = 0;
        let mut p = 0;
        while p <= MAXP {
            // p == MAXP: no nested operation
            reset_ghost();
            let ch: Channel<u8> = Channel::new();
            let mut i = 0;
            while i < 5 {
                if i < queued {
                    ch.send(i as u8 + 1);
                }
                i += 1;
            }
            unsafe {
                let (_, fw) = chan::words(&ch);
                F0 = fw;
                CH = &ch;
            }
            vshim::enumerate(if p == MAXP { usize::MAX - 1 } else { p }, usize::MAX - 1);
            vshim::set_mode_nest(1, 1, 0);
            let before = vshim::ops_at_depth(0);
            if outer_is_send {
                do_send(&ch);
            } else {
                do_recv(&ch);
            }
            if p == MAXP {
                // the undisturbed run has seen every such boundary of the outer operation
                all_points = vshim::points_seen() < MAXP;
            }
            nested_runs += vshim::interrupts_taken();
            nest_finish(&ch, 0, before);
            core::mem::forget(ch);
            p += 1;
        }
        kani::cover!(all_points, "the enumeration bound exceeds the number of successful CAS operations of the outer operation");
        kani::cover!(nested_runs >= 1, "a nested operation ran right after a successful CAS");
    }
    #[kani::proof]
    #[kani::stub(core::hint::spin_loop, crate::common::spin_stub)]
    #[kani::unwind(10)]
    pub fn c08_enum_send_in_send() {
        enumerate_points(2, true, 1);
    }
    #[kani::proof]
    #[kani::stub(core::hint::spin_loop, crate::common::spin_stub)]
    #[kani::unwind(10)]
    pub fn c08_enum_send_in_recv() {
        enumerate_points(2, false, 1);
    }
    #[kani::proof]
    #[kani::stub(core::hint::spin_loop, crate::common::spin_stub)]
    #[kani::unwind(10)]
    pub fn c08_enum_send_in_recv_full() {
        enumerate_points(5, false, 1);
    }
    #[kani::proof]
    #[kani::stub(core::hint::spin_loop, crate::common::spin_stub)]
    #[kani::unwind(10)]
    pub fn c08_enum_send_in_send_last_slot() {
        enumerate_points(4, true, 1);
    }
    #[kani::proof]
    #[kani::stub(core::hint::spin_loop, crate::common::spin_stub)]
    #[kani::unwind(10)]
    pub fn c08_enum_recv_in_recv() {
        enumerate_points(2, false, 2);
    }
    // (send() on a full channel performs no successful CAS: nothing to enumerate)

    /// A complete recv (the consumer thread) at EVERY point of a send - before each
    /// queue-word load, each CAS and the cell access, and right after each
    /// successful CAS - enumerated by a concrete index: e.g. between the load of
    /// the full-queue word and its CAS, which makes the CAS fail and the retry run
    /// on a queue the consumer has shifted meanwhile.
    #[kani::proof]
    #[kani::stub(core::hint::spin_loop, crate::common::spin_stub)]
    #[kani::unwind(12)]
    pub fn c08_enumall_recv_in_send() {
        enumerate_points_with(2, true, 2, enum_interrupt_all, 9);
    }
    /// the same with a send as the nested operation (a handler interrupting a send)
    #[kani::proof]
    #[kani::stub(core::hint::spin_loop, crate::common::spin_stub)]
    #[kani::unwind(12)]
    pub fn c08_enumall_send_in_send() {
        enumerate_points_with(2, true, 1, enum_interrupt_all, 9);
    }
    /// and a send nested at every point of a recv
    #[kani::proof]
    #[kani::stub(core::hint::spin_loop, crate::common::spin_stub)]
    #[kani::unwind(12)]
    pub fn c08_enumall_send_in_recv() {
        enumerate_points_with(2, false, 1, enum_interrupt_all, 9);
    }

    // outer operation / nested operation (a signal handler only ever sends)
    #[kani::proof]
    #[kani::stub(core::hint::spin_loop, crate::common::spin_stub)]
    #[kani::unwind(10)]
    pub fn c08_q_send_in_send() {
        nest_concrete(2, true, 1);
    }
    #[kani::proof]
    #[kani::stub(core::hint::spin_loop, crate::common::spin_stub)]
    #[kani::unwind(10)]
    pub fn c08_q_send_in_recv() {
        nest_concrete(2, false, 1);
    }
    #[kani::proof]
    #[kani::stub(core::hint::spin_loop, crate::common::spin_stub)]
    #[kani::unwind(10)]
    pub fn c08_q_send_in_send_last_slot() {
        nest_concrete(4, true, 1);
    }
    #[kani::proof]
    #[kani::stub(core::hint::spin_loop, crate::common::spin_stub)]
    #[kani::unwind(10)]
    pub fn c08_q_recv_in_recv() {
        nest_concrete(2, false, 2);
    }
    #[kani::proof]
    #[kani::stub(core::hint::spin_loop, crate::common::spin_stub)]
    #[kani::unwind(10)]
    pub fn c08_q_recv_in_send_full() {
        nest_concrete(5, true, 2);
    }
    #[kani::proof]
    #[kani::stub(core::hint::spin_loop, crate::common::spin_stub)]
    #[kani::unwind(10)]
    pub fn c08_q_send_in_recv_full() {
        nest_concrete(5, false, 1);
    }

    /// Channel::new() is an empty, well-formed channel.
    #[kani::proof]
    #[kani::stub(core::hint::spin_loop, crate::common::spin_stub)]
    #[kani::unwind(7)]
    pub fn c06_new_is_empty() {
        let ch: Channel<u8> = Channel::new();
        let (e, f) = chan::words(&ch);
        assert!(valid_ch(&ch, 0), "C06: Channel::new() is not well-formed");
        assert!(qlen(e) == 5 && qlen(f) == 0, "C06: Channel::new() is not empty with five free slots");
        assert!(ch.recv().is_none(), "C06: a new channel yields a value");
        kani::cover!(qlen(e) == 5, "constructed");
        core::mem::forget(ch);
    }
}
