//! C01 — removal is quiescent; freed exactly once, by the writer, outside any
//! read section.  Core: Lal–Reps sequentialisation of the real half_lock.rs.
use crate::common::*;
use libc::vshim::{flag, now, E_USER};
pub const E_DOUBLE: u32 = vshim::eh(0);
pub const E_WRONG_THREAD: u32 = vshim::eh(1);
pub const E_IN_HANDLER: u32 = vshim::eh(2);
pub const E_UAF: u32 = vshim::eh(3);
pub const E_NOT_FREED: u32 = vshim::eh(4);
pub const E_OPEN_SECTION: u32 = vshim::eh(5);

pub const NC: usize = 6;
#[allow(non_snake_case)]
pub mod G {
    use super::NC;
    pub static mut freed_at: [usize; NC] = [usize::MAX; NC]; // now() of the logical free, MAX = live
    pub static mut freed_by: [usize; NC] = [0; NC];
    pub static mut frees: [u8; NC] = [0; NC];
    pub static mut last_touch: [usize; NC] = [0; NC];
    pub static mut touched: [bool; NC] = [false; NC];
    pub static mut reader_box: [usize; 4] = [0; 4];
    pub static mut reader_close: [usize; 4] = [0; 4];
    pub static mut reader_open: [usize; 4] = [0; 4];
    pub static mut nreaders: usize = 0;
    pub static mut is_writer: [bool; 4] = [false; 4];
}

/// Payload with an identity; its Drop is the logical free of the box holding it.
pub struct Canary(pub usize);
impl Drop for Canary {
    fn drop(&mut self) {
        unsafe {
            let i = self.0;
            G::frees[i] += 1;
            if G::frees[i] > 1 {
                flag(E_DOUBLE); // released twice
            }
            G::freed_at[i] = now();
            G::freed_by[i] = vshim::tid();
            if !G::is_writer[vshim::tid()] {
                flag(E_WRONG_THREAD); // released by a thread that is not removing anything
            }
            if vshim::in_delivery() {
                flag(E_IN_HANDLER); // released inside a signal handler
            }
            if G::touched[i] && G::last_touch[i] > now() {
                // somebody (executed earlier, later in time) still used it
                vshim::flag_at(E_UAF, G::last_touch[i] / vshim::NT);
            }
        }
    }
}

/// A use of the referent by a reader: must not come after its release.
pub fn touch(c: &Canary) {
    vshim::sys_point(); // time may pass between obtaining the reference and using it
    unsafe {
        let i = c.0; // a real read of the (possibly released) memory
        if G::freed_at[i] != usize::MAX && G::freed_at[i] < now() {
            flag(E_UAF); // use after release
        }
        G::touched[i] = true;
        if now() > G::last_touch[i] {
            G::last_touch[i] = now();
        }
    }
}

pub fn reader(l: &reg::Lock<Canary>, tid: usize) -> usize {
    vshim::thread_start(tid);
    let g = l.read();
    let id = g.0;
    unsafe {
        let r = G::nreaders;
        G::reader_open[r] = now();
        G::reader_box[r] = id;
    }
    touch(&g);
    touch(&g);
    drop(g);
    unsafe {
        let r = G::nreaders;
        G::reader_close[r] = now();
        G::nreaders += 1;
    }
    id
}

/// The continuation of thread `tid`: a further read section (generation parity).
pub fn reader_again(l: &reg::Lock<Canary>) -> usize {
    let g = l.read();
    let id = g.0;
    touch(&g);
    drop(g);
    id
}

pub fn store(l: &reg::Lock<Canary>, new_id: usize, expect_old: Option<usize>) {
    let mut w = l.write();
    let old = w.0;
    w.store(Canary(new_id));
    unsafe {
        // when store() returns the replaced value has been released exactly once
        if G::frees[old] != 1 {
            flag(E_NOT_FREED);
        }
        if G::frees[new_id] != 0 {
            flag(E_DOUBLE);
        }
    }
    drop(w);
}

fn final_checks(current: usize, total: usize) {
    unsafe {
        // release never happens while a section that obtained the box is open
        let mut r = 0;
        while r < 4 {
            if r < G::nreaders {
                let b = G::reader_box[r];
                if G::freed_at[b] != usize::MAX && G::freed_at[b] < G::reader_close[r] {
                    // decisive event: the later one, i.e. the close of the section
                    vshim::flag_at(E_OPEN_SECTION, G::reader_close[r] / vshim::NT);
                }
            }
            r += 1;
        }
    }
}

#[cfg(kani)]
mod proofs {
    use super::*;

    fn verdict() {
        crate::lr_verdict!(
            "C01",
            (E_DOUBLE, "a value is released twice"),
            (E_WRONG_THREAD, "released by a thread that removes nothing"),
            (E_IN_HANDLER, "released inside a signal handler"),
            (E_UAF, "a reader uses a snapshot after its release"),
            (E_NOT_FREED, "store returned but the replaced snapshot was not released exactly once"),
            (E_OPEN_SECTION, "snapshot released while a read section holding it is open"),
            (vshim::E_WEAK_ORDERING, "half-lock uses an ordering weaker than SeqCst (encoder decides SC only)"),
        );
    }


    /// 1 writer thread x 2 stores, 2 reader threads, K = 3.
    #[kani::proof]
    #[kani::stub(alloc::alloc::dealloc_nonnull, noop_dealloc)]
    #[kani::unwind(8)]
    pub fn c01_lr_w1x2_r2_k3() {
        let l = reg::Lock::new(Canary(0));
        vshim::set_mode_lr(3, 4, 0);
        unsafe {
            ST::require_seqcst = true;
            G::is_writer[0] = true;
        }
        vshim::thread_start(0);
        store(&l, 1, None);
        store(&l, 2, None);
        let a = reader(&l, 1);
        let b = reader(&l, 2);
        final_checks(2, 3);
        verdict();
        kani::cover!(a != b, "readers saw different snapshots");
        kani::cover!(a == 0 && b == 2, "first and last snapshot seen");
        kani::cover!(unsafe { G::reader_close[0] / vshim::NT >= 2 }, "a reader section spans all rounds");
        core::mem::forget(l);
    }

    /// K = 4 rounds: one writer x 2 stores, one reader thread with two consecutive
    /// read sections (the second one lands in the other generation slot).
    #[kani::proof]
    #[kani::stub(alloc::alloc::dealloc_nonnull, noop_dealloc)]
    #[kani::unwind(8)]
    pub fn c01_lr_w1x2_r1x2_k4() {
        let l = reg::Lock::new(Canary(0));
        vshim::set_mode_lr(4, 4, 0);
        unsafe {
            ST::require_seqcst = true;
            G::is_writer[0] = true;
        }
        vshim::thread_start(0);
        store(&l, 1, None);
        store(&l, 2, None);
        let a = reader(&l, 1);
        let b = reader_again(&l);
        final_checks(2, 3);
        verdict();
        kani::cover!(a != b, "the two sections saw different snapshots");
        kani::cover!(a == 0 && b == 2, "first and last snapshot seen");
        core::mem::forget(l);
    }

    /// Registry level, sequential: every action invocation of a delivery happens
    /// inside an open read section of the registry's data lock - the section the
    /// writer's barrier in `unregister` waits for (the half-lock harnesses above
    /// decide that the barrier waits for open sections; this decides that the
    /// dispatcher keeps its section open while it runs the actions).
    #[kani::proof]
    #[kani::unwind(7)]
    pub fn c01_q_actions_run_inside_read_section() {
        use signal_hook_registry::{register, unregister};
        reg::init_globals();
        let sa = libc::SIGUSR1;
        let a = ok(unsafe { register(sa, || hit_in_section(1)) });
        let b = ok(unsafe { register(sa, || hit_in_section(2)) });
        assert!(a.is_some() && b.is_some(), "C01: registering a catchable signal failed");
        deliver(sa);
        assert!(unsafe { L::n } == 2, "C01: the registered actions did not run");
        assert!(!unsafe { RAN_OUTSIDE_SECTION }, "C01: an action ran outside the read section that obtained it (a concurrent removal returns while the action is still running and the action's captures are released by the delivering thread)");
        assert!(reg::data_readers() == 0, "C01: a delivery left a read section open");
        assert!(unregister(a.unwrap()), "C01: unregister of a live id returned false");
        deliver(sa);
        assert!(unsafe { L::n } == 3 && !unsafe { RAN_OUTSIDE_SECTION }, "C01: an action ran outside the read section that obtained it, or a removed action ran");
        kani::cover!(true, "completed");
    }
}

/// Registry level, two real threads (Lal-Reps): thread 0 removes the first of
/// three actions of a signal with the real `unregister`, thread 1 receives the
/// signal (real dispatcher) at any instant.  Time = (round, thread).
///  C01: no invocation of the removed action ends after `unregister` returned;
///       no action is invoked after what it captured was released; the removed
///       action is released exactly once, by thread 0, outside any delivery.
///  C02: the delivery runs the old list or the new one, in order - no mixture.
pub const E_RUNS_AFTER_RETURN: u32 = vshim::eh(6);
pub const E_MIXTURE: u32 = vshim::eh(7);
#[allow(non_snake_case)]
pub mod R {
    pub static mut t_ret: usize = usize::MAX; // now() at which the removal returned
    pub static mut removed_arc: usize = usize::MAX;
}
pub fn timed_action(tag: u8, arc: usize) {
    use libc::vshim::sync::ARCS;
    unsafe {
        if arc < 6 && ARCS::released[arc] > 0 && ARCS::released_at[arc] < now() {
            flag(E_UAF);
        }
    }
    hit(tag);
    vshim::sys_point(); // the action takes time
    unsafe {
        if arc < 6 && ARCS::released[arc] > 0 && ARCS::released_at[arc] < now() {
            flag(E_UAF);
        }
        if arc == R::removed_arc && R::t_ret != usize::MAX && now() > R::t_ret {
            flag(E_RUNS_AFTER_RETURN);
        }
    }
}

#[cfg(kani)]
mod proofs_registry {
    use super::*;
    use libc::vshim::sync::ARCS;
    use signal_hook_registry::{register, unregister};

    #[kani::proof]
    #[kani::stub(alloc::alloc::dealloc_nonnull, noop_dealloc)]
    #[kani::unwind(8)]
    pub fn c01_lr_registry_delivery_vs_unregister() {
        // (pointer words must be mirrored into the round-0 memory while the state is
        // built sequentially, or the LR part would start from the empty registry)
        unsafe { vshim::ST::mirror_ptrs = true };
        reg::init_globals();
        let sa = libc::SIGUSR1;
        let a0 = unsafe { ARCS::next };
        let a = ok(unsafe { register(sa, move || timed_action(1, a0)) });
        let b = ok(unsafe { register(sa, move || timed_action(2, a0 + 1)) });
        let c = ok(unsafe { register(sa, move || timed_action(3, a0 + 2)) });
        assert!(a.is_some() && b.is_some() && c.is_some() && unsafe { ARCS::next } == a0 + 3, "C01: registering a catchable signal failed");
        unsafe { R::removed_arc = a0 };
        vshim::set_mode_lr(3, 3, 0);
        vshim::thread_start(0);
        let r = unregister(a.unwrap());
        unsafe {
            R::t_ret = now();
            if !r || ARCS::released[a0] != 1 {
                flag(E_NOT_FREED);
            }
            if ARCS::released[a0] > 1 || ARCS::released[a0 + 1] != 0 || ARCS::released[a0 + 2] != 0 {
                flag(E_DOUBLE);
            }
        }
        let r0 = vshim::round();
        vshim::thread_start(1);
        vshim::sys_point(); // the kernel picks its moment
        clear_log();
        deliver(sa);
        let r1 = vshim::round();
        unsafe {
            let n = L::n;
            let old = n == 3 && L::log[0] == 1 && L::log[1] == 2 && L::log[2] == 3;
            let new = n == 2 && L::log[0] == 2 && L::log[1] == 3;
            if !old && !new {
                flag(E_MIXTURE);
            }
            // a delivery that started after the removal returned runs the new list
            if ARCS::released[a0] > 0 && (ARCS::released_by[a0] != 0 || ARCS::released_in_delivery[a0]) {
                // decisive event: the release itself (it may lie in a later round
                // of the other thread than the one this thread ends in)
                let rr = ARCS::released_at[a0] / vshim::NT;
                vshim::flag_at(E_IN_HANDLER, if rr > vshim::round() { rr } else { vshim::round() });
            }
        }
        let bad = vshim::lr_violation();
        let e = vshim::errors();
        if kani::any::<bool>() {
            assert!(!vshim::lr_violation_of(E_UAF), "C01: a delivery invoked an action after what it captured had been released");
            assert!(!vshim::lr_violation_of(E_RUNS_AFTER_RETURN), "C01: an invocation of the removed action was still in progress, or started, after unregister had returned");
            assert!(!vshim::lr_violation_of(E_NOT_FREED), "C01: unregister returned but the removed action was not released exactly once");
            assert!(!vshim::lr_violation_of(E_DOUBLE), "C01: an action was released twice, or one that was not removed was released");
            assert!(!vshim::lr_violation_of(E_IN_HANDLER), "C01: the removed action was released by the delivering thread / inside a signal handler");
            assert!(!vshim::lr_violation_of(E_MIXTURE), "C02: a delivery overlapping unregister ran neither the old nor the new action list of its signal");
            assert!(!bad, "C01: another error flag is set (see shim error codes)");
        } else {
            kani::assume(vshim::consistent());
            assert!(e & E_UAF == 0, "C01: [replayable] a delivery invoked an action after what it captured had been released");
            assert!(e & E_RUNS_AFTER_RETURN == 0, "C01: [replayable] an invocation of the removed action was still in progress, or started, after unregister had returned");
            assert!(e & E_NOT_FREED == 0, "C01: [replayable] unregister returned but the removed action was not released exactly once");
            assert!(e & E_IN_HANDLER == 0, "C01: [replayable] the removed action was released by the delivering thread / inside a signal handler");
            assert!(e & E_MIXTURE == 0, "C02: [replayable] a delivery overlapping unregister ran neither the old nor the new action list of its signal");
        }
        kani::cover!(r0 >= 1 && r1 >= 1 && vshim::consistent(), "delivery overlapped the unregister (both threads ran in more than one round)");
        kani::cover!(unsafe { L::n == 3 } && r0 >= 1 && vshim::consistent(), "an overlapping delivery ran the old list");
        kani::cover!(unsafe { L::n == 2 } && vshim::consistent(), "a delivery ran the new list");
    }

    /// The same against `register` of a fourth action for the same signal on
    /// thread 0: the delivery runs the old list or the old list followed by the new
    /// action; nothing is released.
    #[kani::proof]
    #[kani::stub(alloc::alloc::dealloc_nonnull, noop_dealloc)]
    #[kani::unwind(8)]
    pub fn c02_lr_registry_delivery_vs_register() {
        unsafe { vshim::ST::mirror_ptrs = true };
        reg::init_globals();
        let sa = libc::SIGUSR1;
        let a0 = unsafe { ARCS::next };
        let a = ok(unsafe { register(sa, move || timed_action(1, a0)) });
        let b = ok(unsafe { register(sa, move || timed_action(2, a0 + 1)) });
        assert!(a.is_some() && b.is_some() && unsafe { ARCS::next } == a0 + 2, "C02: registering a catchable signal failed");
        vshim::set_mode_lr(3, 3, 0);
        vshim::thread_start(0);
        let c = ok(unsafe { register(sa, move || timed_action(3, a0 + 2)) });
        unsafe {
            if c.is_none() || ARCS::released[a0] != 0 || ARCS::released[a0 + 1] != 0 || ARCS::released[a0 + 2] != 0 {
                flag(E_DOUBLE);
            }
        }
        let r0 = vshim::round();
        vshim::thread_start(1);
        vshim::sys_point();
        clear_log();
        deliver(sa);
        let r1 = vshim::round();
        unsafe {
            let n = L::n;
            let old = n == 2 && L::log[0] == 1 && L::log[1] == 2;
            let new = n == 3 && L::log[0] == 1 && L::log[1] == 2 && L::log[2] == 3;
            if !old && !new {
                flag(E_MIXTURE);
            }
        }
        let e = vshim::errors();
        if kani::any::<bool>() {
            assert!(!vshim::lr_violation_of(E_MIXTURE), "C02: a delivery overlapping register ran neither the old nor the new action list of its signal, in order");
            assert!(!vshim::lr_violation_of(E_DOUBLE), "C01: register released an action, or failed");
            assert!(!vshim::lr_violation_of(E_UAF), "C01: a delivery invoked an action after what it captured had been released");
        } else {
            kani::assume(vshim::consistent());
            assert!(e & E_MIXTURE == 0, "C02: [replayable] a delivery overlapping register ran neither the old nor the new action list of its signal, in order");
            assert!(e & E_DOUBLE == 0, "C01: [replayable] register released an action, or failed");
            assert!(e & E_UAF == 0, "C01: [replayable] a delivery invoked an action after what it captured had been released");
        }
        kani::cover!(r0 >= 1 && r1 >= 1 && vshim::consistent(), "delivery overlapped the register (both threads ran in more than one round)");
        kani::cover!(unsafe { L::n == 2 } && r0 >= 1 && vshim::consistent(), "an overlapping delivery ran the old list");
        kani::cover!(unsafe { L::n == 3 } && vshim::consistent(), "a delivery ran the new list");
    }
}
