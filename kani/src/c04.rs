//! C04 — a handler installed before the library took the signal over is chained:
//! exactly once per delivery, first, with its own calling convention — from the
//! instant the library's handler is the disposition (NEST: the kernel may
//! deliver at every shim point / system call of the first registration).
use crate::c05::{SA, SB};
use crate::common::*;
use libc::vshim::mem::{NPREV_CALLS, PREV_CALLS};
use libc::{c_int, siginfo_t};
use signal_hook_registry::register;

pub const H1: usize = 0x5000; // a plain one-argument handler somebody installed
pub const H3: usize = 0x6000; // a three-argument SA_SIGINFO handler
pub const CTX: usize = 0x77;

#[allow(non_snake_case)]
pub mod D {
    // per delivery: what ran
    pub static mut n: usize = 0; // deliveries so far
    pub static mut bad_count: bool = false;
    pub static mut bad_order: bool = false;
    pub static mut bad_conv: bool = false;
    pub static mut bad_args: bool = false;
    pub static mut called_dfl: bool = false;
    pub static mut prev_h: usize = 0;
    pub static mut prev_flags: i32 = 0;
    pub static mut chained: u32 = 0; // deliveries in which the old handler ran through the library
    pub static mut direct: u32 = 0; // deliveries the kernel gave straight to the old handler
    pub static mut info_addr: usize = 0;
    pub static mut bad_round: usize = usize::MAX;
}

/// The kernel delivers SA once, to whatever is installed at this very instant.
pub fn kdeliver() {
    unsafe {
        let h = libc::model::handler_of(SA as usize);
        D::n += 1;
        if h == reg::handler_addr() {
            let p0 = NPREV_CALLS;
            let l0 = L::n;
            let mut info: siginfo_t = core::mem::zeroed();
            info.si_signo = SA;
            let ia = &mut info as *mut siginfo_t as usize;
            deliver_info(SA, &mut info);
            let calls = NPREV_CALLS - p0;
            let real_prev = D::prev_h == H1 || D::prev_h == H3;
            if real_prev {
                if calls != 1 {
                    D::bad_count = true;
                } else if p0 < libc::vshim::mem::NPREV {
                    let c = PREV_CALLS[p0];
                    D::chained += 1;
                    if c.fptr != D::prev_h || c.sig != SA {
                        D::bad_args = true;
                    }
                    let want3 = D::prev_flags & libc::SA_SIGINFO != 0;
                    if c.three_arg != want3 {
                        D::bad_conv = true;
                    }
                    if want3 && (c.info != ia || c.ctx != CTX) {
                        D::bad_args = true;
                    }
                    // before any registered action of this delivery
                    let mut i = 0;
                    while i < NLOG {
                        if i >= l0 && i < L::n && L::stamp[i] < c.stamp {
                            D::bad_order = true;
                        }
                        i += 1;
                    }
                }
            } else if calls != 0 {
                D::called_dfl = true;
            }
        } else if h == H1 || h == H3 {
            // not taken over yet: the kernel runs the old handler itself
            D::direct += 1;
        }
    }
}

pub const E_COUNT: u32 = libc::vshim::eh(0);
pub const E_ORDER: u32 = libc::vshim::eh(1);
pub const E_CONV: u32 = libc::vshim::eh(2);
pub const E_ARGS: u32 = libc::vshim::eh(3);

/// LR variant: remember the round in which a delivery went wrong.
pub fn kdeliver_lr() {
    unsafe {
        let before = (D::bad_count, D::bad_order, D::bad_conv, D::bad_args);
        vshim::sys_point(); // the kernel picks its moment
        kdeliver();
        let after = (D::bad_count, D::bad_order, D::bad_conv, D::bad_args);
        if before != after && vshim::round() < D::bad_round {
            D::bad_round = vshim::round();
        }
    }
}

fn interrupt(kind: u8, var: usize) {
    if !skip_point(kind, var) && vshim::any_bool() {
        vshim::consume_interrupt();
        kdeliver();
    }
}

#[cfg(kani)]
pub mod proofs {
    use super::*;


    /// Lal-Reps: thread 0 performs the first registration of SA (then of SB),
    /// thread 1 receives SA twice, anywhere in between - including crossing
    /// schedules no nested call can express.
    #[kani::proof]
    #[kani::stub(alloc::alloc::dealloc_nonnull, noop_dealloc)]
    #[kani::unwind(10)]
    pub fn c04_lr_chain_vs_registration() {
        reg::init_globals();
        let which: u8 = kani::any();
        kani::assume(which >= 2 && which < 4);
        unsafe {
            let (h, f) = if which == 2 { (H1, libc::SA_RESTART) } else { (H3, libc::SA_SIGINFO) };
            D::prev_h = h;
            D::prev_flags = f;
            K::disp[SA as usize].handler = h;
            K::disp[SA as usize].flags = f;
            vshim::ST::mirror_ptrs = true;
        }
        libc::model::share_disp(SA);
        vshim::set_mode_lr(3, 3, 0);
        vshim::thread_start(0);
        let a = ok(unsafe { register(SA, || hit(1)) });
        let b = a;
        vshim::thread_start(1);
        kdeliver_lr();
        kdeliver_lr();
        let ok_regs = a.is_some() && b.is_some();
        unsafe {
            let k = vshim::ST::k - 1;
            if D::bad_count { vshim::flag_at(E_COUNT, D::bad_round); }
            if D::bad_order { vshim::flag_at(E_ORDER, D::bad_round); }
            if D::bad_conv { vshim::flag_at(E_CONV, D::bad_round); }
            if D::bad_args { vshim::flag_at(E_ARGS, D::bad_round); }
            let _ = k;
        }
        crate::lr_verdict!(
            "C04",
            (E_COUNT, "a delivery did not invoke the pre-existing handler exactly once"),
            (E_ORDER, "a registered action ran before the pre-existing handler"),
            (E_CONV, "the pre-existing handler was called with the wrong convention (one- vs three-argument)"),
            (E_ARGS, "the pre-existing handler got the wrong signal number / info / context"),
        );
        assert!(ok_regs, "C04: registering a catchable signal failed");
        kani::cover!(unsafe { D::chained } >= 1 && unsafe { D::direct } >= 1, "one delivery before the take-over, one chained after it");
        kani::cover!(unsafe { D::chained } == 2 && unsafe { L::n } == 0, "both deliveries chained while no action was published yet");
    }

    fn verdict() {
        unsafe {
            assert!(!D::bad_count, "C04: a delivery did not invoke the pre-existing handler exactly once");
            assert!(!D::bad_order, "C04: a registered action ran before the pre-existing handler");
            assert!(!D::bad_conv, "C04: the pre-existing handler was called with the wrong convention (one- vs three-argument)");
            assert!(!D::bad_args, "C04: the pre-existing handler got the wrong signal number / info / context");
            assert!(!D::called_dfl, "C04: a default/ignore disposition was called as if it were a handler");
        }
    }

    /// Sequential: every previous disposition; deliveries before the take-over,
    /// after it, and after another signal's first registration overwrote the fallback.
    #[kani::proof]
    #[kani::unwind(10)]
    pub fn c04_seq_chain_all_dispositions() {
        reg::init_globals();
        let which: u8 = kani::any();
        kani::assume(which < 4);
        unsafe {
            let (h, f) = match which {
                0 => (libc::SIG_DFL, 0),
                1 => (libc::SIG_IGN, 0),
                2 => (H1, libc::SA_RESTART),
                _ => (H3, libc::SA_SIGINFO),
            };
            D::prev_h = h;
            D::prev_flags = f;
            K::disp[SA as usize].handler = h;
            K::disp[SA as usize].flags = f;
        }
        kdeliver();
        let a = ok(unsafe { register(SA, || hit(1)) });
        assert!(a.is_some(), "C04: registering a catchable signal failed");
        kdeliver();
        let b = ok(unsafe { register(SB, || hit(2)) });
        assert!(b.is_some(), "C04: registering a catchable signal failed");
        kdeliver();
        // "every later delivery": also once the signal's last action has been removed
        // (by id, by signal) - the library's handler stays installed - and after a
        // re-registration
        assert!(signal_hook_registry::unregister(a.unwrap()), "C04: unregister of a live id returned false");
        kdeliver();
        let c = ok(unsafe { register(SA, || hit(3)) });
        assert!(c.is_some(), "C04: registering a catchable signal failed");
        kdeliver();
        assert!(signal_hook_registry::unregister_signal(SA), "C04: unregister_signal of a signal with an action returned false");
        kdeliver();
        verdict();
        let real = which >= 2;
        assert!(!real || unsafe { D::chained } == 5, "C04: a delivery did not invoke the pre-existing handler exactly once");
        assert!(unsafe { L::n } == 3, "C04: the registered action did not run on each delivery after the take-over");
        kani::cover!(which == 3, "three-argument handler chained");
        kani::cover!(which == 2 && unsafe { D::direct } == 1, "plain handler: one direct call before the take-over");
        kani::cover!(which == 1, "previous disposition ignore");
    }

    /// First registration of SA with a symbolic previous disposition; the kernel
    /// may deliver SA (<= 2 times) at any shim point or system call of it; then a
    /// first registration of SB (overwrites the fallback) and more deliveries.
    #[kani::proof]
    #[kani::unwind(10)]
    pub fn c04_chain_first_registration() {
        reg::init_globals();
        let which: u8 = kani::any();
        kani::assume(which < 4);
        unsafe {
            let (h, f) = match which {
                0 => (libc::SIG_DFL, 0),
                1 => (libc::SIG_IGN, 0),
                2 => (H1, libc::SA_RESTART),
                _ => (H3, libc::SA_SIGINFO),
            };
            D::prev_h = h;
            D::prev_flags = f;
            K::disp[SA as usize].handler = h;
            K::disp[SA as usize].flags = f;
            vshim::HOOKS.interrupt = interrupt;
        }
        arm_filter();
        vshim::set_mode_nest(1, 2, 0);
        let a = ok(unsafe { register(SA, || hit(1)) });
        vshim::set_mode_seq();
        assert!(a.is_some(), "C04: registering a catchable signal failed");
        let in_window = unsafe { D::chained };
        kdeliver();
        vshim::set_mode_nest(1, 1, 0);
        let b = ok(unsafe { register(SB, || hit(2)) });
        vshim::set_mode_seq();
        assert!(b.is_some(), "C04: registering a catchable signal failed");
        kdeliver();
        verdict();
        kani::cover!(which == 3 && in_window >= 1, "siginfo handler chained by a delivery inside the first registration");
        kani::cover!(which == 2 && unsafe { D::direct } >= 1, "kernel ran the plain handler itself before the take-over");
        kani::cover!(which == 0, "previous disposition default");
        kani::cover!(unsafe { D::n } == 5, "five deliveries");
    }
}
