//! C12 (+ iterator clauses of C14 / C18) — a Signals instance survives rejected
//! additions and cleans up what it owns.  Kani has no unwinding, so the panic
//! clauses are decided by queries that do not need it (DESIGN §4 C12):
//!   * refused inputs: nothing changes and the instance lock is not held when
//!     the refusal is raised (a guard alive at a panic poisons the lock)
//!   * from "lock poisoned": later add_signal and drop must still work
//!   * Err path, retry, re-add, drop, failing constructor: plain assertions
use crate::c05::install;
/// iterator harnesses use SIGHUP / SIGINT: they fit the 8-entry table of verification builds
pub const SA: libc::c_int = libc::SIGHUP;
pub const SB: libc::c_int = libc::SIGINT;
use crate::common::*;
use libc::vshim::sync::ARCS;
use libc::c_int;
use signal_hook::iterator::backend::verif_api as be;
use signal_hook::iterator::exfiltrator::{SignalOnly, WithRawSiginfo};
use signal_hook::iterator::{Signals, SignalsInfo};

static mut IDS_MUTEX: usize = usize::MAX;
static mut LOCKED: bool = false;
static mut ARMED: bool = false;
/// the refusal (panic) is raised while the instance lock is held: the lock is
/// poisoned afterwards, which is harmless only if every later lock() tolerates it
/// (decided by the *_poisoned_lock harnesses)
static mut LOCK_BEFORE_REFUSAL: bool = false;

fn on_lock(var: usize) {
    unsafe {
        if var == IDS_MUTEX {
            LOCKED = true;
            if ARMED {
                LOCK_BEFORE_REFUSAL = true;
            }
        }
    }
}
fn on_unlock(var: usize) {
    unsafe {
        if var == IDS_MUTEX {
            LOCKED = false;
        }
    }
}
fn state_change(what: u8) {
    unsafe {
        if ARMED {
            assert!(what != libc::vshim::CH_SIGACTION && what != libc::vshim::CH_PUBLISH, "C14: a refused add_signal changed dispositions or the registry before refusing");
        }
    }
}

#[cfg(kani)]
pub mod proofs {
    use super::*;

    /// (delivery object, its handle) built on the backend level, see c09::mk_delivery
    fn new_signals() -> (signal_hook::iterator::backend::SignalDelivery<libc::vshim::net::UnixStream, SignalOnly>, signal_hook::iterator::backend::Handle) {
        let (d, h) = crate::c09::mk_delivery(false);
        unsafe {
            IDS_MUTEX = be::ids_mutex(&h).id;
            vshim::HOOKS.on_lock = on_lock;
            vshim::HOOKS.on_unlock = on_unlock;
            vshim::HOOKS.state_change = state_change;
        }
        (d, h)
    }

    /// numbers that must be refused by the documented panics: forbidden,
    /// negative, beyond the table.
    #[kani::proof]
    #[kani::stub(core::fmt::write, crate::common::no_fmt_write)]
    #[kani::unwind(6)]
    pub fn c12_panicking_inputs_refused_cleanly() {
        let (s, h) = new_signals();
        let c: u8 = kani::any();
        kani::assume(c < 4);
        let sig: c_int = match c {
            0 => libc::SIGILL,
            1 => -1,
            2 => be::MAXSIG as c_int,
            _ => c_int::MAX,
        };
        unsafe { ARMED = true };
        let r = h.add_signal(sig);
        kani::cover!(true, "unreachable: add_signal returned for a forbidden / negative / too large number");
        core::mem::forget((r, s, h));
    }

    /// a panic while the lock was held has poisoned it: the instance must stay usable
    #[kani::proof]
    #[kani::stub(core::fmt::write, crate::common::no_fmt_write)]
    #[kani::unwind(6)]
    pub fn c12_survives_poisoned_lock() {
        let (s, h) = new_signals();
        be::ids_mutex(&h).verif_poison();
        let r = ok(h.add_signal(SB));
        assert!(r.is_some(), "C12: after a caught panic a later add_signal of a valid signal fails");
        assert!(be::is_watched(&h, SB as usize), "C12: after a caught panic a later add_signal does not take effect");
        kani::cover!(true, "must-reach: add_signal of a valid signal returns on an instance whose lock was poisoned by an earlier caught panic");
        core::mem::forget((s, h));
    }

    /// dropping an instance whose lock is poisoned must not panic (a panic in
    /// drop during unwinding aborts the process) and must still unregister
    #[kani::proof]
    #[kani::stub(core::fmt::write, crate::common::no_fmt_write)]
    #[kani::unwind(6)]
    pub fn c12_drop_with_poisoned_lock() {
        unsafe { ARCS::real_drop = true };
        let (s, h) = new_signals();
        be::ids_mutex(&h).verif_poison();
        drop(h);
        let w = unsafe { K::fds[5] };
        assert!(w.closes == 0 && reg::view(SA).n == 1, "C12: the instance was torn down while the delivery object still exists");
        drop(s);
        assert!(reg::view(SA).n == 0, "C12: dropping the instance after a caught panic leaks its registrations");
        let (r, w) = unsafe { (K::fds[4], K::fds[5]) };
        assert!(r.closes == 1 && w.closes == 1, "C12: the instance's pipe was not closed exactly once when the instance and its handles were gone");
        kani::cover!(true, "must-reach: dropping an instance whose lock was poisoned completes (a panic in drop while unwinding aborts the process)");
    }

    /// kernel-rejected number: Err, nothing changes, retry behaves the same,
    /// valid additions and re-additions work - SignalOnly
    #[kani::proof]
    #[kani::stub(core::fmt::write, crate::common::no_fmt_write)]
    #[kani::unwind(6)]
    pub fn c12_err_path_signal_only() {
        let (s, h) = new_signals();
        unsafe { K::extra_reject = SB };
        let next0 = reg::next_id();
        let r1 = ok(h.add_signal(SB));
        assert!(r1.is_none(), "C12: a number the OS rejects was accepted");
        assert!(!be::is_watched(&h, SB as usize) && reg::next_id() == next0 && !reg::view(SB).present, "C12: a rejected add_signal changed the instance or the registry");
        let r2 = ok(h.add_signal(SB));
        assert!(r2.is_none(), "C12: retrying a rejected add_signal behaves differently");
        unsafe { K::extra_reject = 0 };
        let r3 = ok(h.add_signal(SB));
        assert!(r3.is_some() && be::is_watched(&h, SB as usize), "C12: a valid add_signal after a rejected one fails");
        let next1 = reg::next_id();
        let r4 = ok(h.add_signal(SA));
        assert!(r4.is_some() && reg::next_id() == next1, "C12: re-adding a watched signal is not a no-op");
        deliver(SA);
        let mut got = 0;
        let mut s = s;
        for sig in s.pending() {
            if sig == SA {
                got += 1;
            }
        }
        assert!(got == 1, "C12: a signal watched before the rejected addition is no longer delivered");
        kani::cover!(got == 1, "still delivering");
        core::mem::forget((s, h));
    }

    /// the same with the info-carrying exfiltrator (per-signal slot initialised lazily)
    #[kani::proof]
    #[kani::stub(core::fmt::write, crate::common::no_fmt_write)]
    #[kani::unwind(6)]
    pub fn c12_err_path_raw_siginfo() {
        reg::init_globals();
        let p = ok(libc::vshim::net::UnixStream::pair());
        assert!(p.is_some(), "C12: pair failed");
        let (r, w) = p.unwrap();
        let d = ok(signal_hook::iterator::backend::SignalDelivery::with_pipe(r, w, WithRawSiginfo::default(), &[SA]));
        assert!(d.is_some(), "C12: constructing the delivery failed");
        let s = d.unwrap();
        let h = s.handle();
        unsafe { K::extra_reject = SB };
        let r1 = ok(h.add_signal(SB));
        assert!(r1.is_none(), "C12: a number the OS rejects was accepted");
        let r2 = ok(h.add_signal(SB));
        assert!(r2.is_none(), "C12: retrying a rejected add_signal behaves differently");
        unsafe { K::extra_reject = 0 };
        let r3 = ok(h.add_signal(SB));
        assert!(r3.is_some(), "C12: a valid add_signal after a rejected one fails");
        kani::cover!(true, "must-reach: a valid add_signal after two rejected ones completes (the rejected ones must not leave the slot half-initialised)");
        core::mem::forget((s, h));
    }

    /// A handle outlives its instance and adds a signal: when the last handle is
    /// gone, that registration is gone too (cleanup belongs to the shared state,
    /// not to the instance object).
    #[kani::proof]
    #[kani::stub(core::fmt::write, crate::common::no_fmt_write)]
    #[kani::unwind(6)]
    pub fn c12_handle_outlives_instance() {
        let (s, h) = crate::c09::mk_delivery(false);
        assert!(reg::view(SA).n == 1, "C12: the constructor did not register the watched signal");
        drop(s);
        assert!(reg::view(SA).n == 1, "C12: registrations were removed while a handle still exists");
        let r = ok(h.add_signal(SB));
        assert!(r.is_some(), "C12: add_signal through a surviving handle failed");
        let r2 = ok(h.add_signal(SB));
        assert!(r2.is_some() && reg::view(SB).n == 1, "C12: re-adding a watched signal is not a no-op");
        drop(h);
        assert!(reg::view(SA).n == 0 && reg::view(SB).n == 0, "C12: a registration made by the instance is still there after the instance and all its handles are gone");
        kani::cover!(true, "must-reach: the instance and its last handle were dropped");
    }

    /// backend level: with_pipe fails on its second signal: the first one must not stay registered
    #[kani::proof]
    #[kani::stub(core::fmt::write, crate::common::no_fmt_write)]
    #[kani::unwind(6)]
    pub fn c12_failed_with_pipe_leaves_nothing() {
        reg::init_globals();
        unsafe { K::extra_reject = SB };
        let p = ok(libc::vshim::net::UnixStream::pair());
        assert!(p.is_some(), "C12: pair failed");
        let (r, w) = p.unwrap();
        let d = ok(signal_hook::iterator::backend::SignalDelivery::with_pipe(r, w, SignalOnly::default(), &[SA, SB]));
        assert!(d.is_none(), "C12: a constructor with a rejected signal succeeded");
        assert!(reg::view(SA).n == 0 && !reg::view(SB).present, "C12: a failed constructor left a registration behind");
        // (payloads of released actions are leaked in this harness, so the closing of
        // the pipe - the drop of the action's captures - is not observable here)
        kani::cover!(reg::view(SA).present, "the first signal had been taken over before the failure");
    }
}
