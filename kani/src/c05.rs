//! C05 (+C02 b/c) — the real registry (lib.rs) against a list model, sequentially.
use crate::common::*;
use libc::{c_int, siginfo_t, SIGUSR1, SIGUSR2};
use signal_hook_registry::{register, register_sigaction, unregister, SigId};

pub const NLOG: usize = 8;
#[allow(non_snake_case)]
pub mod L {
    use super::NLOG;
    pub static mut log: [u8; NLOG] = [0; NLOG]; // action tags in invocation order
    pub static mut n: usize = 0;
}
pub fn hit(tag: u8) {
    unsafe {
        if L::n < NLOG {
            L::log[L::n] = tag;
        }
        L::n += 1;
    }
}
pub fn clear_log() {
    unsafe { L::n = 0 }
}

/// One kernel delivery of `sig` through whatever is installed (model).
pub fn deliver(sig: c_int) {
    unsafe {
        let h = K::disp[sig as usize].handler;
        if h == reg::handler_addr() {
            let mut info: siginfo_t = core::mem::zeroed();
            info.si_signo = sig;
            vshim::delivery_enter();
            reg::call_handler(sig, &mut info, core::ptr::null_mut());
            vshim::delivery_exit();
        }
    }
}

#[cfg(kani)]
pub mod proofs {
    use super::*;

    #[kani::proof]
    #[kani::unwind(6)]
    pub fn c05_dbg1() {
        let r = unsafe { register(SIGUSR1, || hit(1)) };
        let good = r.is_ok();
        core::mem::forget(r);
        assert!(good, "C05: registering a catchable signal failed");
    }
    fn one_slot() {
        reg::init_globals();
        let mut b = reg::StateBuilder::new();
        b.slot(SIGUSR1, 0, 0);
        b.action(SIGUSR1, 1, reg::action_from(|_| hit(1)));
        b.publish(2);
    }
    #[kani::proof]
    #[kani::unwind(6)]
    pub fn c05_dbgP() {
        reg::init_globals();
        let n = reg::clone_current();
        assert!(n == 0, "C05: p");
    }
    #[kani::proof]
    #[kani::unwind(6)]
    pub fn c05_dbg2() {
        reg::init_globals();
        let a = ok(unsafe { register(SIGUSR1, || hit(1)) });
        assert!(a.is_some(), "C05: registering a catchable signal failed");
        deliver(SIGUSR1);
        unsafe { assert!(L::n == 1, "C05: x") };
    }

    #[kani::proof]
    #[kani::unwind(6)]
    pub fn c05_basic_history() {
        let a = ok(unsafe { register(SIGUSR1, || hit(1)) });
        let b = ok(unsafe { register(SIGUSR1, || hit(2)) });
        let c = ok(unsafe { register(SIGUSR2, || hit(3)) });
        assert!(a.is_some() && b.is_some() && c.is_some(), "C05: registering a catchable signal failed");
        let (a, b, c) = (a.unwrap(), b.unwrap(), c.unwrap());
        deliver(SIGUSR1);
        unsafe {
            assert!(L::n == 2 && L::log[0] == 1 && L::log[1] == 2, "C05: delivery did not run the signal's actions once each in registration order");
        }
        clear_log();
        assert!(unregister(a), "C05: unregister of a live id returned false");
        assert!(!unregister(a), "C05: unregister of a stale id returned true");
        deliver(SIGUSR1);
        deliver(SIGUSR2);
        unsafe {
            assert!(L::n == 2 && L::log[0] == 2 && L::log[1] == 3, "C05: removal changed other actions");
            assert!(K::disp[SIGUSR1 as usize].handler == reg::handler_addr(), "C05: handler not installed");
            assert!(K::disp[SIGUSR1 as usize].flags == libc::SA_RESTART | libc::SA_SIGINFO, "C05: flags are not SA_RESTART|SA_SIGINFO");
        }
        kani::cover!(true, "history ran");
    }
}

