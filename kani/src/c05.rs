//! C05 (+ clauses of C02) — the real registry (signal-hook-registry/src/lib.rs)
//! against a list model: one operation from a symbolic valid state, and
//! symbolic histories from the initial state.
use crate::common::*;
use libc::{c_int, siginfo_t, SIGUSR1, SIGUSR2};
use signal_hook_registry::{register, register_sigaction, unregister, unregister_signal, SigId};

pub const SA: c_int = SIGUSR1;
pub const SB: c_int = SIGUSR2;
pub const WANT_FLAGS: c_int = libc::SA_RESTART | libc::SA_SIGINFO;

/// List model of one signal's slot.
#[derive(Copy, Clone)]
pub struct MSlot {
    pub present: bool,
    pub n: usize,
    pub ids: [u128; 3],
    pub tags: [u8; 3],
}
pub const MEMPTY: MSlot = MSlot {
    present: false,
    n: 0,
    ids: [0; 3],
    tags: [0; 3],
};
#[derive(Copy, Clone)]
pub struct Model {
    pub a: MSlot,
    pub b: MSlot,
    pub next_id: u128,
}
impl MSlot {
    pub fn push(&mut self, id: u128, tag: u8) {
        self.ids[self.n] = id;
        self.tags[self.n] = tag;
        self.n += 1;
        self.present = true;
    }
    pub fn remove(&mut self, id: u128) -> bool {
        let mut found = false;
        let mut i = 0;
        while i < 3 {
            if i < self.n && !found && self.ids[i] == id {
                found = true;
            }
            if found && i + 1 < 3 {
                self.ids[i] = self.ids[i + 1];
                self.tags[i] = self.tags[i + 1];
            }
            i += 1;
        }
        if found {
            self.n -= 1;
        }
        found
    }
}

/// Does the published snapshot agree with the model for `sig`?
pub fn agrees(sig: c_int, m: &MSlot) -> bool {
    let v = reg::view(sig);
    let mut ok = v.present == m.present && (!m.present || v.n == m.n);
    let mut i = 0;
    while i < 3 {
        if m.present && i < m.n && v.ids[i] != m.ids[i] {
            ok = false;
        }
        i += 1;
    }
    ok
}

pub fn action(tag: u8) -> impl Fn() + Send + Sync + 'static {
    move || hit(tag)
}

/// Publish a symbolic valid registry state and return its model.
/// <= 2 actions on SA (tags 1,2), <= 1 action on SB (tag 3); ids ascending and < next_id.
#[cfg(kani)]
pub fn any_state() -> Model {
    reg::init_globals();
    let mut m = Model {
        a: MEMPTY,
        b: MEMPTY,
        next_id: 1,
    };
    let a_present: bool = kani::any();
    let b_present: bool = kani::any();
    let na: usize = kani::any();
    let nb: usize = kani::any();
    kani::assume(na <= 2 && nb <= 1);
    let id1: u128 = kani::any();
    let id2: u128 = kani::any();
    let id3: u128 = kani::any();
    let next: u128 = kani::any();
    kani::assume(id1 >= 1 && id1 < id2 && id2 < next && id3 >= 1 && id3 < next && id3 != id1 && id3 != id2);
    kani::assume(next < u128::MAX - 4);
    let mut b = reg::StateBuilder::new();
    if a_present {
        b.slot(SA, 0, 0);
        m.a.present = true;
        install(SA);
        if na >= 1 {
            b.action(SA, id1, reg::action_from(|_| hit(1)));
            m.a.push(id1, 1);
        }
        if na >= 2 {
            b.action(SA, id2, reg::action_from(|_| hit(2)));
            m.a.push(id2, 2);
        }
    }
    if b_present {
        b.slot(SB, 0, 0);
        m.b.present = true;
        install(SB);
        if nb >= 1 {
            b.action(SB, id3, reg::action_from(|_| hit(3)));
            m.b.push(id3, 3);
        }
    }
    b.publish(next);
    m.next_id = next;
    m
}

/// The kernel-side fact that goes with a slot: the library's handler is installed.
pub fn install(sig: c_int) {
    unsafe {
        K::disp[sig as usize].handler = reg::handler_addr();
        K::disp[sig as usize].flags = WANT_FLAGS;
    }
}
pub fn installed(sig: c_int) -> bool {
    unsafe { K::disp[sig as usize].handler == reg::handler_addr() && K::disp[sig as usize].flags == WANT_FLAGS }
}

/// Log must be exactly the model's tags of that slot, in order.
pub fn log_is(m: &MSlot) -> bool {
    unsafe {
        let want = if m.present { m.n } else { 0 };
        let mut ok = L::n == want;
        let mut i = 0;
        while i < 3 {
            if i < want && i < L::n && L::log[i] != m.tags[i] {
                ok = false;
            }
            i += 1;
        }
        ok
    }
}

#[cfg(kani)]
pub mod proofs {
    use super::*;

    /// One register() on either signal from any valid state.
    #[kani::proof]
    #[kani::unwind(7)]
    pub fn c05_step_register() {
        let mut m = any_state();
        let on_a: bool = kani::any();
        let sig = if on_a { SA } else { SB };
        let had_slot = if on_a { m.a.present } else { m.b.present };
        kani::assume(if on_a { m.a.n < 3 } else { m.b.n < 3 });
        let calls0 = unsafe { K::sigaction_sets };
        let swaps0 = vshim::ptr_swaps();
        let r = ok(unsafe { register(sig, || hit(4)) });
        assert!(r.is_some(), "C05: registering a catchable signal failed");
        let (rsig, rid) = reg::sigid_parts(r.unwrap());
        assert!(rsig == sig && rid == m.next_id, "C05: the id handed out is not a fresh one (ids must never repeat)");
        if on_a {
            m.a.push(rid, 4);
        } else {
            m.b.push(rid, 4);
        }
        m.next_id += 1;
        assert!(agrees(SA, &m.a) && agrees(SB, &m.b), "C05: register changed something other than appending its action to its signal");
        assert!(reg::next_id() == m.next_id, "C05: the id counter did not advance by exactly one");
        assert!(installed(sig), "C05: the library's handler with SA_RESTART|SA_SIGINFO is not the disposition after register");
        let calls = unsafe { K::sigaction_sets } - calls0;
        assert!(calls == if had_slot { 0 } else { 1 }, "C05: sigaction is called exactly once per signal, at the first registration");
        let swaps = vshim::ptr_swaps() - swaps0;
        assert!(swaps == if had_slot { 1 } else { 2 }, "C02: a mutator publishes more than one snapshot (or none)");
        kani::cover!(!had_slot && !on_a, "first registration of the second signal");
        kani::cover!(had_slot && on_a && m.a.n == 3, "third action on one signal");
    }

    /// One unregister() of a live, stale or never-issued id from any valid state.
    #[kani::proof]
    #[kani::unwind(7)]
    pub fn c05_step_unregister() {
        let mut m = any_state();
        let sig: c_int = if kani::any() { SA } else { SB };
        let id: u128 = kani::any();
        let swaps0 = vshim::ptr_swaps();
        let sets0 = unsafe { K::sigaction_sets };
        let r = unregister(reg::make_sigid(sig, id));
        let expect = if sig == SA { m.a.remove(id) } else { m.b.remove(id) };
        assert!(r == expect, "C05: unregister returned true for an id that is not registered (or false for a live one)");
        assert!(agrees(SA, &m.a) && agrees(SB, &m.b), "C05: unregister changed something other than removing exactly that action");
        assert!(reg::next_id() == m.next_id, "C05: unregister changed the id counter (ids could be handed out twice)");
        assert!(unsafe { K::sigaction_sets } == sets0, "C05: unregister changed the signal's disposition");
        assert!((!m.a.present || installed(SA)) && (!m.b.present || installed(SB)), "C05: the handler is no longer installed after unregister");
        let swaps = vshim::ptr_swaps() - swaps0;
        assert!(swaps == if r { 1 } else { 0 }, "C02: unregister publishes exactly one snapshot iff it removed something");
        kani::cover!(r && sig == SA && m.a.n == 1, "removed one of two");
        kani::cover!(!r && id >= m.next_id, "never-issued id");
        kani::cover!(!r && id < m.next_id, "stale id");
    }

    /// unregister_signal() from any valid state.
    #[kani::proof]
    #[kani::unwind(7)]
    pub fn c05_step_unregister_signal() {
        let mut m = any_state();
        let sig: c_int = if kani::any() { SA } else { SB };
        let sets0 = unsafe { K::sigaction_sets };
        #[allow(deprecated)]
        let r = unregister_signal(sig);
        let slot = if sig == SA { &mut m.a } else { &mut m.b };
        let expect = slot.present && slot.n > 0;
        slot.n = 0;
        assert!(r == expect, "C05: unregister_signal's result does not say whether it removed anything");
        assert!(agrees(SA, &m.a) && agrees(SB, &m.b), "C05: unregister_signal touched another signal or left actions behind");
        assert!(reg::next_id() == m.next_id, "C05: unregister_signal changed the id counter");
        assert!(unsafe { K::sigaction_sets } == sets0, "C05: unregister_signal changed the disposition");
        kani::cover!(r, "removed something");
        kani::cover!(!r, "nothing to remove");
    }

    /// One delivery from any valid state runs exactly the signal's actions, in order.
    #[kani::proof]
    #[kani::unwind(7)]
    pub fn c05_step_deliver() {
        let m = any_state();
        let sig: c_int = if kani::any() { SA } else { SB };
        let slot = if sig == SA { m.a } else { m.b };
        kani::assume(slot.present);
        let loads0 = vshim::ops(vshim::OP_LOAD);
        let rmw0 = vshim::ops(vshim::OP_RMW);
        let swaps0 = vshim::ptr_swaps();
        deliver(sig);
        assert!(log_is(&slot), "C02: a delivery did not run exactly its signal's actions once each in registration order");
        assert!(vshim::ops(vshim::OP_LOAD) - loads0 == 4 && vshim::ops(vshim::OP_RMW) - rmw0 == 4,
            "C02: the dispatcher does not take exactly one read section on each of the two snapshots");
        assert!(vshim::ptr_swaps() == swaps0, "C05: a delivery changed the registry");
        assert!(agrees(SA, &m.a) && agrees(SB, &m.b), "C05: a delivery changed the registry");
        kani::cover!(slot.n == 2, "two actions ran");
        kani::cover!(slot.n == 0, "slot without actions");
    }

    /// Concrete history (quick tier): ids, order, cross-signal independence, stale ids.
    #[kani::proof]
    #[kani::unwind(7)]
    pub fn c05_q_concrete_history() {
        reg::init_globals();
        let a = ok(unsafe { register(SA, || hit(1)) });
        let b = ok(unsafe { register_sigaction(SA, |_| hit(2)) });
        let c = ok(unsafe { register(SB, || hit(3)) });
        assert!(a.is_some() && b.is_some() && c.is_some(), "C05: registering a catchable signal failed");
        let (ia, ib, ic) = (reg::sigid_parts(a.unwrap()).1, reg::sigid_parts(b.unwrap()).1, reg::sigid_parts(c.unwrap()).1);
        assert!(ia < ib && ib < ic, "C05: the id handed out is not a fresh one (ids must never repeat)");
        assert!(installed(SA) && installed(SB), "C05: the library's handler with SA_RESTART|SA_SIGINFO is not the disposition after register");
        deliver(SA);
        unsafe {
            assert!(L::n == 2 && L::log[0] == 1 && L::log[1] == 2, "C02: a delivery did not run exactly its signal's actions once each in registration order");
        }
        clear_log();
        assert!(unregister(a.unwrap()), "C05: unregister of a live id returned false");
        assert!(!unregister(a.unwrap()), "C05: unregister of a stale id returned true");
        deliver(SA);
        deliver(SB);
        unsafe {
            assert!(L::n == 2 && L::log[0] == 2 && L::log[1] == 3, "C05: removal of one action changed what other actions or signals do");
        }
        assert!(installed(SA) && installed(SB), "C05: a taken-over signal lost the library's handler (with SA_RESTART|SA_SIGINFO)");
        kani::cover!(true, "history completed");
        kani::cover!(unsafe { K::sigaction_sets } == 2, "sigaction set exactly once per signal");
    }

    /// ids stay fresh after a removal; a stale id never removes a later action.
    /// `c02`: judge only the delivery (C02: the action whose registration returned
    /// and which nobody removed runs exactly once, the removed one does not).
    fn fresh_ids(by_signal: bool, c02: bool) {
        reg::init_globals();
        let mut b = reg::StateBuilder::new();
        b.slot(SA, 0, 0);
        install(SA);
        b.action(SA, 1, reg::action_from(|_| hit(1)));
        b.publish(2);
        if by_signal {
            #[allow(deprecated)]
            let r = unregister_signal(SA);
            assert!(c02 || r, "C05: unregister_signal's result does not say whether it removed anything");
        } else {
            let r = unregister(reg::make_sigid(SA, 1));
            assert!(c02 || r, "C05: unregister of a live id returned false");
        }
        let d = ok(unsafe { register(SA, || hit(4)) });
        assert!(d.is_some(), "C05: registering a catchable signal failed");
        let nid = reg::sigid_parts(d.unwrap()).1;
        assert!(c02 || nid == 2, "C05: the id handed out is not a fresh one (ids must never repeat)");
        // the application still holds the id of the removed action and uses it again
        let stale = unregister(reg::make_sigid(SA, 1));
        assert!(c02 || !stale, "C05: unregister of a stale id returned true (and removed a later action)");
        deliver(SA);
        unsafe {
            if c02 {
                assert!(L::n == 1 && L::log[0] == 4, "C02: a delivery did not run exactly the registered, not removed actions (removing an action by its id took a later action with it)");
            }
            assert!(L::n == 1 && L::log[0] == 4, "C05: a stale id removed a later action, or a removed action still runs");
        }
        assert!(installed(SA), "C05: a taken-over signal lost the library's handler (with SA_RESTART|SA_SIGINFO)");
        kani::cover!(true, "completed");
        kani::cover!(nid == 2, "fresh id");
    }
    #[kani::proof]
    #[kani::unwind(7)]
    pub fn c05_q_fresh_ids_after_unregister() {
        fresh_ids(false, false);
    }
    #[kani::proof]
    #[kani::unwind(7)]
    pub fn c05_q_fresh_ids_after_unregister_signal() {
        fresh_ids(true, false);
    }
    /// C02 view of the same history (the id-related C05 verdicts do not mask it)
    #[kani::proof]
    #[kani::unwind(7)]
    pub fn c02_q_removed_id_used_again() {
        fresh_ids(false, true);
    }

    /// A handler somebody else had installed before the take-over: the library's
    /// handler stays the disposition when the last action goes away (it keeps
    /// chaining), and a later registration does not install anything again.
    #[kani::proof]
    #[kani::unwind(7)]
    pub fn c05_q_stays_installed_over_foreign_handler() {
        reg::init_globals();
        let by_signal: bool = kani::any();
        unsafe {
            K::disp[SA as usize].handler = 0x5000;
            K::disp[SA as usize].flags = libc::SA_NODEFER;
        }
        let a = ok(unsafe { register(SA, || hit(1)) });
        assert!(a.is_some(), "C05: registering a catchable signal failed");
        assert!(installed(SA), "C05: the first registration did not install the library's handler with SA_RESTART|SA_SIGINFO");
        if by_signal {
            #[allow(deprecated)]
            let r = unregister_signal(SA);
            assert!(r, "C05: unregister_signal's result does not say whether it removed anything");
        } else {
            assert!(unregister(a.unwrap()), "C05: unregister of a live id returned false");
        }
        assert!(installed(SA), "C05: a taken-over signal lost the library's handler (with SA_RESTART|SA_SIGINFO) when its last action was removed");
        deliver(SA);
        assert!(unsafe { L::n } == 0, "C05: a removed action still runs");
        let b = ok(unsafe { register(SA, || hit(2)) });
        assert!(b.is_some(), "C05: registering a catchable signal failed");
        assert!(installed(SA), "C05: a taken-over signal lost the library's handler (with SA_RESTART|SA_SIGINFO)");
        deliver(SA);
        assert!(unsafe { L::n == 1 && L::log[0] == 2 }, "C05: after re-registration a delivery does not run exactly the new action");
        kani::cover!(by_signal, "removed with unregister_signal");
        kani::cover!(!by_signal, "removed with unregister(id)");
    }

    /// unregister of ANY (signal, u128 id) pair from a concrete three-action state
    #[kani::proof]
    #[kani::unwind(7)]
    pub fn c05_q_unregister_any() {
        reg::init_globals();
        let mut b = reg::StateBuilder::new();
        b.slot(SA, 0, 0);
        install(SA);
        b.action(SA, 1, reg::action_from(|_| hit(1)));
        b.action(SA, 2, reg::action_from(|_| hit(2)));
        b.slot(SB, 0, 0);
        install(SB);
        b.action(SB, 3, reg::action_from(|_| hit(3)));
        b.publish(4);
        let mut m = Model { a: MEMPTY, b: MEMPTY, next_id: 4 };
        m.a.push(1, 1);
        m.a.push(2, 2);
        m.b.push(3, 3);
        let id: u128 = kani::any();
        let on_a: bool = kani::any();
        let swaps0 = vshim::ptr_swaps();
        let r = unregister(reg::make_sigid(if on_a { SA } else { SB }, id));
        let e = if on_a { m.a.remove(id) } else { m.b.remove(id) };
        assert!(r == e, "C05: unregister returned true for an id that is not registered (or false for a live one)");
        assert!(agrees(SA, &m.a) && agrees(SB, &m.b), "C05: unregister changed something other than removing exactly that action");
        assert!(reg::next_id() == 4, "C05: unregister changed the id counter (ids could be handed out twice)");
        assert!(vshim::ptr_swaps() - swaps0 == if r { 1 } else { 0 }, "C02: unregister publishes exactly one snapshot iff it removed something");
        kani::cover!(r && on_a && id == 1, "removed the first action");
        kani::cover!(r && !on_a, "removed the other signal's action");
        kani::cover!(!r && id == 3 && on_a, "live id paired with the wrong signal");
    }

    /// A fixed history with symbolic parameters (quick tier): three registrations
    /// on two signals, deliveries, then an unregister of ANY (signal, id) pair.
    #[kani::proof]
    #[kani::unwind(7)]
    pub fn c05_q_history() {
        reg::init_globals();
        let mut m = Model { a: MEMPTY, b: MEMPTY, next_id: 1 };
        let a = ok(unsafe { register(SA, || hit(1)) });
        let b = ok(unsafe { register_sigaction(SA, |_| hit(2)) });
        let c = ok(unsafe { register(SB, || hit(3)) });
        assert!(a.is_some() && b.is_some() && c.is_some(), "C05: registering a catchable signal failed");
        let (ida, idb, idc) = (reg::sigid_parts(a.unwrap()).1, reg::sigid_parts(b.unwrap()).1, reg::sigid_parts(c.unwrap()).1);
        assert!(ida == 1 && idb == 2 && idc == 3, "C05: the id handed out is not a fresh one (ids must never repeat)");
        m.a.push(ida, 1);
        m.a.push(idb, 2);
        m.b.push(idc, 3);
        m.next_id = 4;
        assert!(installed(SA) && installed(SB), "C05: the library's handler with SA_RESTART|SA_SIGINFO is not the disposition after register");
        deliver(SA);
        assert!(log_is(&m.a), "C02: a delivery did not run exactly its signal's actions once each in registration order");
        clear_log();
        deliver(SB);
        assert!(log_is(&m.b), "C02: a delivery ran actions registered for another signal (or not its own)");
        clear_log();
        // any id at all, paired with either signal
        let id: u128 = kani::any();
        let on_a: bool = kani::any();
        let r = unregister(reg::make_sigid(if on_a { SA } else { SB }, id));
        let e = if on_a { m.a.remove(id) } else { m.b.remove(id) };
        assert!(r == e, "C05: unregister returned true for an id that is not registered (or false for a live one)");
        assert!(agrees(SA, &m.a) && agrees(SB, &m.b), "C05: unregister changed something other than removing exactly that action");
        assert!(reg::next_id() == 4, "C05: unregister changed the id counter (ids could be handed out twice)");
        assert!(installed(SA) && installed(SB), "C05: a taken-over signal lost the library's handler");
        kani::cover!(r && on_a && id == 1, "removed the first action");
        kani::cover!(r && !on_a, "removed the other signal's action");
        kani::cover!(!r && id == 3 && on_a, "live id paired with the wrong signal");
    }

}
