//! C02 (d) — a delivery nested anywhere inside a mutator on the same thread runs
//! the action list of the state before or after the mutation, never a mixture.
use crate::c05::{install, SA, SB};
use crate::common::*;
use libc::c_int;
use signal_hook_registry::{register, unregister, unregister_signal};

#[allow(non_snake_case)]
pub mod N {
    pub static mut bad: bool = false; // some nested delivery ran neither list
    pub static mut saw_pre: bool = false;
    pub static mut saw_post: bool = false;
    pub static mut pre: [u8; 3] = [0; 3];
    pub static mut npre: usize = 0;
    pub static mut post: [u8; 3] = [0; 3];
    pub static mut npost: usize = 0;
    pub static mut other_ran: bool = false;
}

fn matches(l0: usize, want: &[u8; 3], n: usize) -> bool {
    unsafe {
        let mut ok = L::n - l0 == n;
        let mut i = 0;
        while i < 3 {
            if i < n && l0 + i < NLOG && L::log[l0 + i] != want[i] {
                ok = false;
            }
            i += 1;
        }
        ok
    }
}

fn interrupt(kind: u8, var: usize) {
    if skip_point(kind, var) || !vshim::any_bool() {
        return;
    }
    vshim::consume_interrupt();
    unsafe {
        let l0 = L::n;
        deliver(SA);
        let is_pre = matches(l0, &N::pre, N::npre);
        let is_post = matches(l0, &N::post, N::npost);
        if !is_pre && !is_post {
            N::bad = true;
        }
        if is_pre {
            N::saw_pre = true;
        }
        if is_post && !is_pre {
            N::saw_post = true;
        }
        let mut i = 0;
        while i < NLOG {
            if i >= l0 && i < L::n && L::log[i] == 9 {
                N::other_ran = true;
            }
            i += 1;
        }
    }
}

/// Another thread, running while this thread is paused between two steps of its
/// own `register`: it registers an action for the same signal (it can only do
/// so while the writer mutex is free - the shim cuts the path otherwise) and a
/// delivery then observes the registry.
#[allow(non_snake_case)]
pub mod O {
    pub static mut ran: bool = false;
    pub static mut d1: [u8; 4] = [0; 4]; // what the observing delivery ran
    pub static mut n1: usize = 0;
}
fn interrupt_other_thread_registers(kind: u8, var: usize) {
    // the other thread's register() needs the writer mutex: it can only complete
    // at points where this thread does not hold it
    if skip_point(kind, var) || reg::data_mutex_locked() || !vshim::is_nth_point() {
        return;
    }
    vshim::consume_interrupt();
    unsafe {
        let r = ok(register(SA, || hit(8)));
        if r.is_none() {
            N::bad = true;
        }
        O::ran = true;
        let l0 = L::n;
        deliver(SA);
        let mut i = 0;
        while i < 4 {
            if l0 + i < L::n && l0 + i < NLOG {
                O::d1[i] = L::log[l0 + i];
                O::n1 = i + 1;
            }
            i += 1;
        }
    }
}

#[cfg(kani)]
pub mod proofs {
    use super::*;

    /// register() on this thread, with a complete register() + delivery of another
    /// thread at every point of it at which the writer mutex is free (enumerated:
    /// the point index is a concrete loop counter): registration order = the order
    /// in which registrations took effect.  Whatever the observing delivery ran
    /// stays an in-order prefix of what a later delivery runs: an action published
    /// later never slips in front of one that was already running.
    #[kani::proof]
    #[kani::unwind(12)]
    pub fn c02_enum_register_vs_register() {
        const MAXP: usize = 9;
        let mut all_points = false;
        let mut before_effect = false;
        let mut after_effect = false;
        let mut p = 0;
        while p <= MAXP {
            reg::reset_globals();
            clear_log();
            unsafe {
                K::disp[SA as usize].handler = libc::SIG_DFL;
                K::disp[SA as usize].flags = 0;
                O::ran = false;
                O::n1 = 0;
                N::bad = false;
            }
            let base = ok(unsafe { register(SA, || hit(1)) });
            assert!(base.is_some(), "C02: registering a catchable signal failed");
            arm_filter();
            unsafe { vshim::HOOKS.interrupt = interrupt_other_thread_registers };
            vshim::enumerate(if p == MAXP { usize::MAX - 1 } else { p }, usize::MAX - 1);
            vshim::set_mode_nest(1, 1, 0);
            let r = ok(unsafe { register(SA, || hit(7)) });
            vshim::set_mode_seq();
            assert!(r.is_some() && !unsafe { N::bad }, "C02: registering a catchable signal failed");
            if p == MAXP {
                all_points = vshim::points_seen() < MAXP;
            }
            let l0 = unsafe { L::n };
            deliver(SA);
            unsafe {
                let n2 = L::n - l0;
                assert!(n2 == if O::ran { 3 } else { 2 }, "C02: a delivery after all registrations returned does not run every registered action exactly once");
                let mut i = 0;
                let mut prefix = true;
                while i < 4 {
                    if i < O::n1 && l0 + i < NLOG && L::log[l0 + i] != O::d1[i] {
                        prefix = false;
                    }
                    i += 1;
                }
                assert!(prefix, "C02: actions do not run in the order they were registered (an action registered later ran in front of one an earlier delivery had already run)");
                if O::ran && O::n1 == 2 {
                    before_effect = true;
                }
                if O::ran && O::n1 == 3 {
                    after_effect = true;
                }
            }
            p += 1;
        }
        kani::cover!(all_points, "the enumeration bound exceeds the number of points of register() at which the writer mutex is free");
        kani::cover!(before_effect, "the other thread registered before this thread's registration took effect");
        // (there is no interruption point after the mutex has been released, so the
        // other thread never registers after this thread's registration took effect)
        assert!(!after_effect || before_effect, "harness: unexpected point after the critical section");
    }

    fn setup(na: usize) -> (u128, u128) {
        reg::init_globals();
        let mut b = reg::StateBuilder::new();
        b.slot(SA, 0, 0);
        install(SA);
        b.action(SA, 3, reg::action_from(|_| hit(1)));
        if na >= 2 {
            b.action(SA, 5, reg::action_from(|_| hit(2)));
        }
        b.slot(SB, 0, 0);
        install(SB);
        b.action(SB, 4, reg::action_from(|_| hit(9)));
        b.publish(8);
        arm_filter();
        unsafe { vshim::HOOKS.interrupt = interrupt };
        (3, 5)
    }
    fn verdict() {
        unsafe {
            assert!(!N::bad, "C02: a delivery overlapping a mutation ran a mixture of the old and the new action list");
            assert!(!N::other_ran, "C02: a delivery ran an action registered for another signal");
        }
    }

    /// deliveries of SA nested in register(SA, ..)
    #[kani::proof]
    #[kani::unwind(10)]
    pub fn c02_nest_register() {
        setup(1);
        unsafe {
            N::pre = [1, 0, 0];
            N::npre = 1;
            N::post = [1, 7, 0];
            N::npost = 2;
        }
        vshim::set_mode_nest(1, 2, 0);
        let r = ok(unsafe { register(SA, || hit(7)) });
        vshim::set_mode_seq();
        assert!(r.is_some(), "C02: registering a catchable signal failed");
        let l0 = unsafe { L::n };
        deliver(SA);
        assert!(matches(l0, unsafe { &N::post }, 2), "C02: after register returned a delivery does not run the new action last");
        verdict();
        kani::cover!(unsafe { N::saw_pre && N::saw_post }, "one nested delivery saw the old list, another the new one");
    }

    /// deliveries of SA nested in unregister(first of two)
    #[kani::proof]
    #[kani::unwind(10)]
    pub fn c02_nest_unregister() {
        let (id1, _id2) = setup(2);
        unsafe {
            N::pre = [1, 2, 0];
            N::npre = 2;
            N::post = [2, 0, 0];
            N::npost = 1;
        }
        vshim::set_mode_nest(1, 2, 0);
        let r = unregister(reg::make_sigid(SA, id1));
        vshim::set_mode_seq();
        assert!(r, "C02: unregister of a live id returned false");
        let l0 = unsafe { L::n };
        deliver(SA);
        assert!(matches(l0, unsafe { &N::post }, 1), "C02: an action ran after its removal had returned");
        verdict();
        kani::cover!(unsafe { N::saw_pre && N::saw_post }, "one nested delivery saw the old list, another the new one");
    }
}

/// C01, the clause "for a delivery nested on the very thread that is
/// mid-removal": deliveries of the signal land at every shim point of
/// `unregister(id)` / `unregister_signal`; the removed action's captures (the
/// shim `Arc`'s ghost release event) are released exactly once, by the mutator
/// and not while a delivery is on the stack, nothing is used after its release,
/// the surviving action is not released, and the read sections are closed.
#[cfg(kani)]
pub mod proofs_c01 {
    use super::*;
    use libc::vshim::sync::ARCS;

    fn setup() {
        reg::init_globals();
        let mut b = reg::StateBuilder::new();
        b.slot(SA, 0, 0);
        install(SA);
        b.action(SA, 3, reg::action_from(|_| hit_in_section(1))); // arc 0
        b.action(SA, 5, reg::action_from(|_| hit_in_section(2))); // arc 1
        b.slot(SB, 0, 0);
        install(SB);
        b.action(SB, 4, reg::action_from(|_| hit(9))); // arc 2
        b.publish(8);
        arm_filter();
        unsafe {
            vshim::HOOKS.interrupt = interrupt;
            N::pre = [1, 2, 0];
            N::npre = 2;
        }
    }
    fn verdict(removed: &[usize], kept: &[usize]) {
        unsafe {
            let mut i = 0;
            while i < 3 {
                let is_removed = removed.contains(&i);
                let is_kept = kept.contains(&i);
                if is_removed {
                    assert!(ARCS::released[i] == 1, "C01: removal returned but what the removed action captured was not released exactly once");
                    assert!(!ARCS::released_in_delivery[i], "C01: an action's captures were released inside a signal handler");
                }
                if is_kept {
                    assert!(ARCS::released[i] == 0, "C01: an action that was not removed was released");
                }
                assert!(!ARCS::used_after_release[i], "C01: a delivery touched an action that had already been released");
                i += 1;
            }
            assert!(!RAN_OUTSIDE_SECTION, "C01: an action ran outside the read section that obtained it");
            assert!(reg::data_readers() == 0 && reg::fallback_readers() == 0, "C01: a read section is still open after the removal returned");
        }
    }

    #[kani::proof]
    #[kani::unwind(10)]
    pub fn c01_nest_delivery_inside_unregister() {
        setup();
        unsafe {
            N::post = [2, 0, 0];
            N::npost = 1;
        }
        vshim::set_mode_nest(1, 2, 0);
        let r = unregister(reg::make_sigid(SA, 3));
        vshim::set_mode_seq();
        assert!(r, "C01: unregister of a live id returned false");
        verdict(&[0], &[1, 2]);
        let l0 = unsafe { L::n };
        deliver(SA);
        assert!(matches(l0, unsafe { &N::post }, 1), "C01: a removed action ran after its removal had returned");
        verdict(&[0], &[1, 2]);
        assert!(!unsafe { N::bad }, "C01: a delivery overlapping the removal ran neither the old nor the new action list");
        kani::cover!(unsafe { N::saw_pre && N::saw_post }, "one nested delivery saw the old list, another the new one");
    }

    #[kani::proof]
    #[kani::unwind(10)]
    pub fn c01_nest_delivery_inside_unregister_signal() {
        setup();
        unsafe {
            N::post = [0, 0, 0];
            N::npost = 0;
        }
        vshim::set_mode_nest(1, 2, 0);
        let r = unregister_signal(SA);
        vshim::set_mode_seq();
        assert!(r, "C01: unregister_signal of a signal with actions returned false");
        verdict(&[0, 1], &[2]);
        let l0 = unsafe { L::n };
        deliver(SA);
        assert!(matches(l0, unsafe { &N::post }, 0), "C01: a removed action ran after its removal had returned");
        verdict(&[0, 1], &[2]);
        assert!(!unsafe { N::bad }, "C01: a delivery overlapping the removal ran neither the old nor the new action list");
        kani::cover!(unsafe { N::saw_pre && N::saw_post }, "one nested delivery saw the old list, another the new one");
    }
}
