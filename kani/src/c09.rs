//! C09 / C10 / C11 / C12 — the real iterator front-end (src/iterator/mod.rs,
//! backend.rs, exfiltrators) over the descriptor model, with the real registry
//! dispatch underneath.  Interleavings (consumer vs delivering thread vs closing
//! thread) by Lal–Reps; counting / history clauses sequentially.
//! (Under the guard the slot table has 16 entries instead of 128.)
use crate::c05::{SA, SB};
use crate::common::*;
use libc::vshim::net::{UnixStream, PAIR_READ, PAIR_WRITE};
use libc::vshim::{eh, flag, flag_at, now, NT};
use libc::{c_int, siginfo_t};
use signal_hook::iterator::backend::verif_api as be;
use signal_hook::iterator::backend::{Handle, PollResult, SignalDelivery, SignalIterator};
use signal_hook::iterator::exfiltrator::{SignalOnly, WithRawSiginfo};
use signal_hook::iterator::{Signals, SignalsInfo};
use std::io::Error;

pub const E_LOST: u32 = eh(0);
pub const E_STRANDED: u32 = eh(1);
pub const E_PENDING_UNARMED: u32 = eh(2);
pub const E_NOT_STICKY: u32 = eh(3);
pub const E_SPURIOUS: u32 = eh(4);

#[allow(non_snake_case)]
pub mod I {
    pub static mut delivery_start: [usize; 3] = [usize::MAX; 3];
    pub static mut delivery_end: [usize; 3] = [usize::MAX; 3];
    pub static mut ndeliveries: usize = 0;
    pub static mut yielded_sa: u32 = 0; // times the consumer obtained SA
    pub static mut yielded_other: u32 = 0; // anything else
    pub static mut close_end: usize = usize::MAX; // now() when close() returned
    pub static mut consulted: u32 = 0; // readiness callback invocations
    pub static mut last_answer: bool = false;
    pub static mut consumer_blocked: u32 = 0;
}

/// One complete delivery of SA by the running thread (stamped for the oracles).
pub fn delivery() {
    unsafe {
        let i = I::ndeliveries;
        I::delivery_start[i] = now();
        deliver(SA);
        I::delivery_end[i] = now();
        I::ndeliveries += 1;
    }
}

/// Has some delivery completed strictly before the current instant without SA
/// having been handed to the consumer since?  (single signal, yields counted)
fn completed_unreported() -> bool {
    unsafe {
        let mut done = 0;
        let mut i = 0;
        while i < 3 {
            if i < I::ndeliveries && I::delivery_end[i] < now() {
                done += 1;
            }
            i += 1;
        }
        done > 0 && I::yielded_sa == 0
    }
}

/// The consumer is about to sleep in a blocking read on the empty self-pipe.
fn block_hook(_fd: c_int) -> bool {
    unsafe {
        I::consumer_blocked += 1;
        if completed_unreported() {
            // a delivered signal is unreported, no wake-up byte is outstanding,
            // and nobody is left to write one
            flag(E_LOST);
        }
        if I::close_end != usize::MAX && I::close_end < now() {
            flag(E_STRANDED);
        }
    }
    false // this thread waits here; other round choices cover "the byte arrives later"
}

fn note(sig: c_int) {
    unsafe {
        if sig == SA {
            I::yielded_sa += 1;
        } else {
            I::yielded_other += 1;
        }
    }
}

/// Readiness callback of an async adapter: non-blocking look at the pipe.
fn ready_cb(r: &mut UnixStream) -> Result<bool, Error> {
    use std::os::unix::io::AsRawFd;
    unsafe {
        I::consulted += 1;
        let mut b = [0u8; 1];
        let n = libc::recv(r.as_raw_fd(), b.as_mut_ptr() as *mut libc::c_void, 1, libc::MSG_DONTWAIT);
        I::last_answer = n > 0;
        Ok(n > 0)
    }
}

#[cfg(kani)]
pub mod proofs {
    use super::*;

    fn lr_setup(k: usize) {
        libc::model::share_fill(PAIR_WRITE as usize);
        vshim::set_mode_lr(k, 2, 0);
        unsafe { vshim::HOOKS.block = block_hook };
    }

    /// C09: one delivery on another thread against a consumer doing up to two
    /// wait()+drain iterations: the consumer never sleeps on the empty pipe while
    /// the delivered signal is unreported.
    #[kani::proof]
    #[kani::stub(alloc::alloc::dealloc_nonnull, noop_dealloc)]
    #[kani::unwind(18)]
    pub fn c09_lr_wait_vs_delivery() {
        reg::init_globals();
        unsafe { vshim::ST::mirror_ptrs = true };
        let s = ok(Signals::new(&[SA]));
        assert!(s.is_some(), "C09: constructing Signals failed");
        let mut signals = s.unwrap();
        lr_setup(3);
        vshim::thread_start(0);
        delivery();
        vshim::thread_start(1);
        let mut it = 0;
        while it < 2 {
            if unsafe { I::yielded_sa } == 0 {
                for sig in signals.wait() {
                    note(sig);
                }
            }
            it += 1;
        }
        let got = unsafe { I::yielded_sa };
        let other = unsafe { I::yielded_other };
        crate::lr_verdict!(
            "C09",
            (E_LOST, "the consumer blocks on the self-pipe while a delivered signal is unreported and no wake-up is outstanding"),
            (E_STRANDED, "C11 clause: a consumer blocks after close() returned"),
        );
        assert!(other == 0, "C10: the iterator yielded a signal it was not asked to watch");
        assert!(got <= 1, "C10: one delivery was reported more than once");
        kani::cover!(got == 1, "the delivery was reported");
        kani::cover!(got == 1 && unsafe { I::delivery_start[0] / NT } >= 1, "the delivery began after the consumer had started");
        core::mem::forget(signals);
    }

    /// C11: close() on another thread against one poll_signal() call of an async
    /// adapter: Pending only if the readiness callback was consulted in that call
    /// and said "nothing"; Closed/Signal otherwise; sticky afterwards.
    #[kani::proof]
    #[kani::stub(alloc::alloc::dealloc_nonnull, noop_dealloc)]
    #[kani::unwind(18)]
    pub fn c11_lr_poll_vs_close() {
        reg::init_globals();
        unsafe { vshim::ST::mirror_ptrs = true };
        let p = ok(UnixStream::pair());
        assert!(p.is_some(), "C11: pair failed");
        let (r, w) = p.unwrap();
        core::mem::forget(r.set_nonblocking(true));
        let d = ok(SignalDelivery::with_pipe(r, w, SignalOnly::default(), &[SA]));
        assert!(d.is_some(), "C11: constructing the delivery failed");
        let d = d.unwrap();
        let handle = d.handle();
        let mut iter = SignalIterator::new(d);
        lr_setup(3);
        vshim::thread_start(0);
        handle.close();
        unsafe { I::close_end = now() };
        vshim::thread_start(1);
        let c0 = unsafe { I::consulted };
        let res = iter.poll_signal(&mut ready_cb);
        let consulted = unsafe { I::consulted } - c0;
        let started_after_close = unsafe { I::close_end } < now();
        let mut pending = false;
        let mut closed = false;
        match res {
            PollResult::Pending => {
                pending = true;
                if consulted == 0 || unsafe { I::last_answer } {
                    flag(E_PENDING_UNARMED);
                }
            }
            PollResult::Closed => closed = true,
            PollResult::Signal(_) => flag(E_SPURIOUS),
            PollResult::Err(e) => core::mem::forget(e),
        }
        // sticky: once close() has returned, is_closed() is true for good
        if unsafe { I::close_end } < now() && !handle.is_closed() {
            flag(E_NOT_STICKY);
        }
        crate::lr_verdict!(
            "C11",
            (E_PENDING_UNARMED, "poll reported 'pending' without having consulted the readiness callback in that call (no wake-up is armed)"),
            (E_NOT_STICKY, "is_closed() is false after close() returned"),
            (E_SPURIOUS, "C10 clause: a signal was reported although none was delivered"),
            (E_STRANDED, "a consumer blocks after close() returned"),
        );
        kani::cover!(closed, "poll reported closed");
        kani::cover!(pending && consulted == 1, "poll consulted the callback and reported pending");
        core::mem::forget((iter, handle));
    }

    /// C11: close() on another thread against a blocking wait(): never left asleep.
    #[kani::proof]
    #[kani::stub(alloc::alloc::dealloc_nonnull, noop_dealloc)]
    #[kani::unwind(18)]
    pub fn c11_lr_wait_vs_close() {
        reg::init_globals();
        unsafe { vshim::ST::mirror_ptrs = true };
        let s = ok(Signals::new(&[SA]));
        assert!(s.is_some(), "C11: constructing Signals failed");
        let mut signals = s.unwrap();
        let handle = signals.handle();
        lr_setup(3);
        vshim::thread_start(0);
        handle.close();
        unsafe { I::close_end = now() };
        vshim::thread_start(1);
        for sig in signals.wait() {
            note(sig);
        }
        let second = unsafe { I::close_end } < now();
        if second {
            // a wait that starts after close() returned must not block either
            for sig in signals.wait() {
                note(sig);
            }
        }
        if unsafe { I::yielded_sa + I::yielded_other } != 0 {
            flag(E_SPURIOUS);
        }
        crate::lr_verdict!(
            "C11",
            (E_STRANDED, "a consumer blocks after close() returned"),
            (E_SPURIOUS, "C10 clause: a signal was reported although none was delivered"),
        );
        kani::cover!(second, "a wait() began after close() had returned");
        kani::cover!(unsafe { I::consumer_blocked } == 0, "the consumer never had to sleep");
        core::mem::forget((signals, handle));
    }

    /// C10 (sequential): bursts of deliveries vs pending(): never more yields than
    /// deliveries, nothing unwatched, SignalOnly collapses a burst to one report.
    #[kani::proof]
    #[kani::unwind(18)]
    pub fn c10_seq_counts_signal_only() {
        reg::init_globals();
        let s = ok(Signals::new(&[SA]));
        assert!(s.is_some(), "C10: constructing Signals failed");
        let mut signals = s.unwrap();
        let mut delivered = 0u32;
        let mut step = 0;
        while step < 3 {
            let what: u8 = kani::any();
            kani::assume(what < 3);
            if what == 0 {
                deliver(SA);
                delivered += 1;
            } else if what == 1 {
                // a signal nobody asked this instance to watch
                deliver(SB);
            } else {
                let before = unsafe { I::yielded_sa };
                for sig in signals.pending() {
                    note(sig);
                }
                let got = unsafe { I::yielded_sa } - before;
                assert!(got <= 1, "C10: one pending() batch reported the same signal twice");
            }
            assert!(unsafe { I::yielded_sa } <= delivered, "C10: the iterator has yielded a signal more often than it was delivered");
            assert!(unsafe { I::yielded_other } == 0, "C10: the iterator yielded a signal it was not asked to watch");
            step += 1;
        }
        // whatever is left comes out once, then nothing
        for sig in signals.pending() {
            note(sig);
        }
        let total = unsafe { I::yielded_sa };
        for sig in signals.pending() {
            note(sig);
        }
        assert!(unsafe { I::yielded_sa } == total, "C10: a delivery was reported again by a later batch (flag not cleared)");
        assert!(total <= delivered && (delivered == 0 || total >= 1), "C09: a delivered signal was never reported although the consumer kept draining");
        kani::cover!(delivered == 2 && total == 1, "a burst was collapsed");
        kani::cover!(delivered == 2 && total == 2, "two deliveries, two reports");
        core::mem::forget(signals);
    }
}
