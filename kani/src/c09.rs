//! C09 / C10 / C11 / C12 — the real iterator front-end (src/iterator/mod.rs,
//! backend.rs, exfiltrators) over the descriptor model, with the real registry
//! dispatch underneath.  Interleavings (consumer vs delivering thread vs closing
//! thread) by Lal–Reps; counting / history clauses sequentially.
//! (Under the guard the slot table has 16 entries instead of 128.)
/// iterator harnesses use SIGHUP / SIGINT: they fit the 8-entry table of verification builds
pub const SA: libc::c_int = libc::SIGHUP;
pub const SB: libc::c_int = libc::SIGINT;
use crate::common::*;
use libc::vshim::net::{UnixStream, PAIR_READ, PAIR_WRITE};
use libc::vshim::{eh, flag, flag_at, now, NT};
use libc::{c_int, siginfo_t};
use signal_hook::iterator::backend::verif_api as be;
use signal_hook::iterator::backend::{Handle, PollResult, SignalDelivery, SignalIterator};
use signal_hook::iterator::exfiltrator::{SignalOnly, WithRawSiginfo};
use signal_hook::iterator::{Signals, SignalsInfo};
use std::io::Error;

pub const E_LOST: u32 = eh(0);
pub const E_STRANDED: u32 = eh(1);
pub const E_PENDING_UNARMED: u32 = eh(2);
pub const E_NOT_STICKY: u32 = eh(3);
pub const E_SPURIOUS: u32 = eh(4);

#[allow(non_snake_case)]
pub mod I {
    pub static mut delivery_start: [usize; 3] = [usize::MAX; 3];
    pub static mut delivery_end: [usize; 3] = [usize::MAX; 3];
    pub static mut ndeliveries: usize = 0;
    pub static mut yielded_sa: u32 = 0; // times the consumer obtained SA
    pub static mut yielded_other: u32 = 0; // anything else
    pub static mut close_end: usize = usize::MAX; // now() when close() returned
    pub static mut consulted: u32 = 0; // readiness callback invocations
    pub static mut last_answer: bool = false;
    pub static mut consumer_blocked: u32 = 0;
}

/// One complete delivery of SA by the running thread (stamped for the oracles).
pub fn delivery() {
    unsafe {
        let i = I::ndeliveries;
        I::delivery_start[i] = now();
        deliver(SA);
        I::delivery_end[i] = now();
        I::ndeliveries += 1;
    }
}

/// Has some delivery completed strictly before the current instant without SA
/// having been handed to the consumer since?  (single signal, yields counted)
fn completed_unreported() -> bool {
    unsafe {
        let mut done = 0;
        let mut i = 0;
        while i < 3 {
            if i < I::ndeliveries && I::delivery_end[i] < now() {
                done += 1;
            }
            i += 1;
        }
        done > 0 && I::yielded_sa == 0
    }
}

/// The consumer is about to sleep in a blocking read on the empty self-pipe.
fn block_hook(_fd: c_int) -> bool {
    unsafe {
        I::consumer_blocked += 1;
        if completed_unreported() {
            // a delivered signal is unreported, no wake-up byte is outstanding,
            // and nobody is left to write one
            flag(E_LOST);
        }
        if I::close_end != usize::MAX && I::close_end < now() {
            flag(E_STRANDED);
        }
    }
    false // this thread waits here; other round choices cover "the byte arrives later"
}

fn note(sig: c_int) {
    unsafe {
        if sig == SA {
            I::yielded_sa += 1;
            // nested deliveries are complete, so every delivery done by now stored
            // its flag before the swap that produced this yield
            X::reported = X::deliveries_done;
        } else {
            I::yielded_other += 1;
        }
    }
}

/// Readiness callback of an async adapter: non-blocking look at the pipe.
fn ready_cb(r: &mut UnixStream) -> Result<bool, Error> {
    use std::os::unix::io::AsRawFd;
    unsafe {
        I::consulted += 1;
        let mut b = [0u8; 1];
        let n = libc::recv(r.as_raw_fd(), b.as_mut_ptr() as *mut libc::c_void, 1, libc::MSG_DONTWAIT);
        I::last_answer = n > 0;
        Ok(n > 0)
    }
}

/// Build the delivery object the way SignalsInfo::with_exfiltrator does (the
/// front-end in iterator/mod.rs only forwards to these backend calls; going
/// through it would create and drop a Handle clone per call, whose reference
/// counts CBMC cannot fold).
#[cfg(kani)]
pub fn mk_delivery(nonblocking: bool) -> (SignalDelivery<UnixStream, SignalOnly>, Handle) {
    reg::init_globals();
    // Shim words are numbered in creation order: the slot table first, then the
    // closed flag, then the ids mutex.  The interrupt filters need these numbers
    // as *concrete* values (read back from the heap they would be symbolic for
    // CBMC and every point would carry a nested copy).
    unsafe {
        X::base_var = vshim::ST::nvars_all;
        X::arcs_before = libc::vshim::sync::arcs_created();
    }
    let p = ok(UnixStream::pair());
    assert!(p.is_some(), "C09: pair failed");
    let (r, w) = p.unwrap();
    if nonblocking {
        core::mem::forget(r.set_nonblocking(true));
    }
    let d = ok(SignalDelivery::with_pipe(r, w, SignalOnly::default(), &[SA]));
    assert!(d.is_some(), "C09: constructing the signal delivery failed");
    let d = d.unwrap();
    let h = d.handle();
    (d, h)
}

/// SignalsInfo::has_signals: blocking one-byte read of the self-pipe.
pub fn has_signals_blocking(r: &mut UnixStream) -> Result<bool, Error> {
    use std::io::Read;
    match r.read(&mut [0u8]) {
        Ok(n) => Ok(n > 0),
        Err(e) => Err(e),
    }
}

/// SignalsInfo::wait, on the backend object.
#[cfg(kani)]
pub fn wait_and_drain(d: &mut SignalDelivery<UnixStream, SignalOnly>) {
    let pending = match d.poll_pending(&mut has_signals_blocking) {
        Ok(Some(p)) => p,
        Ok(None) => d.pending(),
        Err(e) => {
            core::mem::forget(e);
            return;
        }
    };
    for sig in pending {
        note(sig);
    }
}

// ---------------------------------------------------------------------------
// NEST ghost state (no rounds: a global event counter orders things)
// ---------------------------------------------------------------------------
#[allow(non_snake_case)]
pub mod X {
    pub static mut deliveries_done: u32 = 0; // complete deliveries of SA so far
    pub static mut closed_done: bool = false; // close() has returned
    pub static mut slot_var: usize = usize::MAX; // shim word of SA's pending flag
    pub static mut closed_var: usize = usize::MAX;
    pub static mut base_var: usize = 0;
    pub static mut reported: u32 = 0; // deliveries covered by the consumer's yields so far (consumer-outer harnesses)
    pub static mut by_count: bool = false; // unreported = deliveries_done > reported (else: no yield at all yet)
    pub static mut in_close: bool = false; // close() is the outer, interrupted operation
    pub static mut asleep: bool = false; // the other thread's consumer went to sleep on the empty pipe
    pub static mut writes_at_sleep: u32 = 0;
    pub static mut direct: bool = false;
    pub static mut action: Option<&'static libc::vshim::sync::ActionFn<'static>> = None;
    pub static mut arcs_before: usize = 0;
    pub static mut nested_consumer_runs: u32 = 0;
    pub static mut handle: *const super::Handle = core::ptr::null();
    pub static mut delivery: *mut super::SignalDelivery<super::UnixStream, super::SignalOnly> = core::ptr::null_mut();
}

/// Is a completed delivery of SA still unreported?
fn unreported() -> bool {
    unsafe {
        if X::by_count {
            X::deliveries_done > X::reported
        } else {
            X::deliveries_done > 0 && I::yielded_sa == 0
        }
    }
}

/// The consumer is about to sleep on the empty self-pipe (SEQ / NEST harnesses).
/// The verdicts are asserted here: the model cuts the path of a thread that
/// sleeps forever, so nothing after the read would be evaluated.
fn block_hook_nest(_fd: c_int) -> bool {
    unsafe {
        I::consumer_blocked += 1;
        if X::in_close {
            // the consumer of another thread goes to sleep while close() is still
            // running: remember it; it is woken only by a later write
            X::asleep = true;
            X::writes_at_sleep = K::fds[PAIR_WRITE as usize].write_calls;
            return true; // (the read returns "nothing"; that iteration is abandoned)
        }
        // the pipe is empty, so no wake-up byte is outstanding, and every delivery
        // counted in deliveries_done has completed: nobody is left to write one
        assert!(!unreported(), "C09: the consumer blocks on the self-pipe while a delivered signal is unreported and no wake-up is outstanding");
        assert!(!X::closed_done, "C11: a consumer blocks after close() returned");
    }
    false
}

/// One delivery of SA as far as the iterator is concerned: the action that
/// `add_signal` registered (store into the slot, then wake the self-pipe), run
/// in "delivery" context.  In the nested harnesses it is invoked directly (the
/// Arc taken from the registry once) instead of through the dispatcher, whose
/// behaviour is the subject of C02/C03/C05 - a nested copy of the dispatcher at
/// every point costs > 8 GB.
fn full_delivery() {
    unsafe {
        if X::direct {
            let mut info: siginfo_t = core::mem::zeroed();
            info.si_signo = SA;
            vshim::delivery_enter();
            match X::action {
                Some(a) => a(&info),
                None => {}
            }
            vshim::delivery_exit();
        } else {
            deliver(SA);
        }
        X::deliveries_done += 1;
    }
}

/// consumer outer: a complete delivery may land at every system call of the
/// consumer and at every access to the watched signal's slot
fn interrupt_with_delivery(kind: u8, var: usize) {
    unsafe {
        // the access to the next slot is the first point after the scan has
        // swapped the watched slot
        if !(kind == vshim::OP_SYS || var == X::slot_var || var == X::slot_var + 1) {
            return;
        }
    }
    if vshim::any_bool() {
        vshim::consume_interrupt();
        full_delivery();
    }
}

/// delivery outer: a complete consumer iteration (on another thread) may run at
/// every system call / slot access of the delivering action
fn interrupt_with_consumer(kind: u8, var: usize) {
    unsafe {
        if !vshim::in_delivery() || !(kind == vshim::OP_SYS || var == X::slot_var) {
            return;
        }
        if vshim::any_bool() {
            vshim::consume_interrupt();
            X::nested_consumer_runs += 1;
            // the consumer only runs if it was woken: a byte is in the pipe
            vshim::assume(libc::model::fget(PAIR_WRITE as usize) > 0);
            let depth = vshim::ST::delivery_depth;
            vshim::ST::delivery_depth = 0;
            wait_and_drain(&mut *X::delivery);
            vshim::ST::delivery_depth = depth;
        }
    }
}

/// close() outer: the consumer of another thread runs up to two iterations at
/// every system call of close() and at its store to the closed flag
fn interrupt_close_with_consumer(kind: u8, var: usize) {
    unsafe {
        if !X::in_close || !(kind == vshim::OP_SYS || var == X::closed_var) {
            return;
        }
        if vshim::any_bool() {
            vshim::consume_interrupt();
            X::nested_consumer_runs += 1;
            wait_and_drain(&mut *X::delivery);
            if !X::asleep {
                wait_and_drain(&mut *X::delivery);
            }
        }
    }
}

/// consumer outer: close() (from another thread) may land at every check of the closed flag and every system call
fn interrupt_with_close(kind: u8, var: usize) {
    unsafe {
        if X::closed_done || !(kind == vshim::OP_SYS || var == X::closed_var) {
            return;
        }
        if vshim::any_bool() {
            vshim::consume_interrupt();
            (*X::handle).close();
            X::closed_done = true;
        }
    }
}

#[cfg(kani)]
pub mod proofs {
    use super::*;

    fn arm(d: &mut SignalDelivery<UnixStream, SignalOnly>, h: &Handle) {
        arm_with(d, h, true)
    }
    /// `direct`: deliveries call the action `add_signal` registered; otherwise they
    /// go through the kernel model and the registry's real dispatcher.
    fn arm_with(d: &mut SignalDelivery<UnixStream, SignalOnly>, h: &Handle, direct: bool) {
        unsafe {
            X::slot_var = X::base_var + SA as usize;
            X::closed_var = X::base_var + be::MAXSIG;
            kani::cover!(be::slot_var(d, SA as usize) == X::slot_var && be::closed_var(h) == X::closed_var, "the shim words of the watched slot and of the closed flag were located");
            X::handle = h;
            X::delivery = d;
            // the first registry Arc created by with_pipe is SA's exfiltrating action
            X::action = libc::vshim::sync::action_by_arc_id(X::arcs_before);
            X::direct = direct;
            assert!(X::action.is_some(), "C09: add_signal did not register an action for the watched signal");
            vshim::HOOKS.block = block_hook_nest;
        }
    }

    /// C09 (a): a delivery lands anywhere inside one consumer iteration
    /// (read / drain / scan); the next iteration must not sleep on an empty pipe
    /// with that signal unreported.
    #[kani::proof]
    #[kani::stub(core::fmt::write, crate::common::no_fmt_write)]
    #[kani::unwind(6)]
    pub fn c09_nest_delivery_inside_consumer() {
        delivery_inside_consumer(true);
    }
    /// the same with every delivery going through the registry's dispatcher
    #[kani::proof]
    #[kani::stub(core::fmt::write, crate::common::no_fmt_write)]
    #[kani::unwind(6)]
    pub fn c09_nest_delivery_inside_consumer_dispatcher() {
        delivery_inside_consumer(false);
    }
    fn delivery_inside_consumer(direct: bool) {
        let (mut d, h) = mk_delivery(false);
        arm_with(&mut d, &h, direct);
        unsafe { X::by_count = true };
        // the consumer was woken by an earlier, already reported event: one byte is pending
        let spurious: bool = kani::any();
        if spurious {
            unsafe { K::fds[PAIR_WRITE as usize].fill = 1 };
        } else {
            full_delivery();
        }
        unsafe { vshim::HOOKS.interrupt = interrupt_with_delivery };
        vshim::set_mode_nest(1, 1, 0);
        wait_and_drain(&mut d);
        vshim::set_mode_seq();
        let first = unsafe { I::yielded_sa };
        if unreported() {
            // the consumer keeps waiting: it must not sleep (asserted where it would), and it must obtain the signal
            wait_and_drain(&mut d);
        }
        assert!(!unreported(), "C09: a delivered signal was not obtained by a consumer that keeps waiting and draining");
        // a later delivery, after the consumer has caught up: it must be woken and obtain it too
        full_delivery();
        wait_and_drain(&mut d);
        assert!(!unreported(), "C09: a later delivery was not obtained by a consumer that keeps waiting and draining");
        assert!(unsafe { I::yielded_other } == 0, "C10: the iterator yielded a signal it was not asked to watch");
        assert!(unsafe { I::yielded_sa } <= unsafe { X::deliveries_done }, "C10: the iterator has yielded a signal more often than it was delivered");
        kani::cover!(spurious && vshim::interrupts_taken() == 1 && first == 0, "delivery landed after the scan had passed its slot");
        kani::cover!(!spurious && unsafe { X::deliveries_done } == 3, "three deliveries, one nested");
        core::mem::forget((d, h));
    }

    /// C09 (a) through the real front-end object: the consumer is
    /// `SignalsInfo::wait()` itself (not the replicated composition), a complete
    /// delivery lands anywhere inside it; then a later delivery.
    #[kani::proof]
    #[kani::stub(core::fmt::write, crate::common::no_fmt_write)]
    #[kani::unwind(6)]
    pub fn c09_nest_delivery_inside_wait_frontend() {
        reg::init_globals();
        unsafe {
            X::base_var = vshim::ST::nvars_all;
            X::arcs_before = libc::vshim::sync::arcs_created();
        }
        let s = ok(Signals::new(&[SA]));
        assert!(s.is_some(), "C09: constructing Signals failed");
        let mut s = s.unwrap();
        let h = s.handle();
        unsafe {
            X::slot_var = X::base_var + SA as usize;
            X::closed_var = X::base_var + be::MAXSIG;
            kani::cover!(be::closed_var(&h) == X::closed_var, "the shim word of the closed flag was located");
            X::handle = &h;
            X::action = libc::vshim::sync::action_by_arc_id(X::arcs_before);
            X::direct = true;
            assert!(X::action.is_some(), "C09: add_signal did not register an action for the watched signal");
            vshim::HOOKS.block = block_hook_nest;
            X::by_count = true;
        }
        let spurious: bool = kani::any();
        if spurious {
            unsafe { K::fds[PAIR_WRITE as usize].fill = 1 };
        } else {
            full_delivery();
        }
        unsafe { vshim::HOOKS.interrupt = interrupt_with_delivery };
        vshim::set_mode_nest(1, 1, 0);
        for sig in s.wait() {
            note(sig);
        }
        vshim::set_mode_seq();
        let first = unsafe { I::yielded_sa };
        if unreported() {
            for sig in s.wait() {
                note(sig);
            }
        }
        assert!(!unreported(), "C09: a delivered signal was not obtained by a consumer that keeps waiting and draining");
        full_delivery();
        for sig in s.wait() {
            note(sig);
        }
        assert!(!unreported(), "C09: a later delivery was not obtained by a consumer that keeps waiting and draining");
        assert!(unsafe { I::yielded_other } == 0, "C10: the iterator yielded a signal it was not asked to watch");
        assert!(unsafe { I::yielded_sa } <= unsafe { X::deliveries_done }, "C10: the iterator has yielded a signal more often than it was delivered");
        kani::cover!(spurious && vshim::interrupts_taken() == 1 && first == 0, "delivery landed after the scan had passed its slot");
        kani::cover!(!spurious && unsafe { X::deliveries_done } == 3, "three deliveries, one nested");
        core::mem::forget((s, h));
    }

    /// C09 (b): the consumer (another thread) runs a complete iteration in the
    /// middle of the delivering action; afterwards it must not sleep with the
    /// signal unreported.
    #[kani::proof]
    #[kani::stub(core::fmt::write, crate::common::no_fmt_write)]
    #[kani::unwind(6)]
    pub fn c09_nest_consumer_inside_delivery() {
        consumer_inside_delivery(true);
    }
    /// the same with the delivery going through the registry's dispatcher
    #[kani::proof]
    #[kani::stub(core::fmt::write, crate::common::no_fmt_write)]
    #[kani::unwind(6)]
    pub fn c09_nest_consumer_inside_delivery_dispatcher() {
        consumer_inside_delivery(false);
    }
    fn consumer_inside_delivery(direct: bool) {
        let (mut d, h) = mk_delivery(false);
        arm_with(&mut d, &h, direct);
        // the other thread may have been woken by an earlier, already reported event
        if kani::any() {
            unsafe { K::fds[PAIR_WRITE as usize].fill = 1 };
        }
        unsafe { vshim::HOOKS.interrupt = interrupt_with_consumer };
        vshim::set_mode_nest(1, 1, 0);
        full_delivery();
        vshim::set_mode_seq();
        if unsafe { I::yielded_sa } == 0 {
            // the consumer keeps waiting: it must not sleep (asserted where it would)
            wait_and_drain(&mut d);
        }
        assert!(unsafe { I::yielded_sa } == 1, "C09: a delivered signal was not obtained by a consumer that keeps waiting and draining");
        kani::cover!(unsafe { X::nested_consumer_runs } == 1, "a consumer iteration ran inside the delivery");
        kani::cover!(unsafe { X::nested_consumer_runs } == 0, "undisturbed delivery");
        core::mem::forget((d, h));
    }

    /// C09 (a) for the consumer behind `forever()` and the async adapters: the
    /// `SignalIterator` polled with the blocking `has_signals` callback, exactly as
    /// `Forever::next` does.  A complete delivery lands at every system call / slot
    /// access of two consecutive polls (the one that hands out the signal of an
    /// earlier delivery, and the one that finds its batch exhausted and goes back
    /// to wait): the consumer never sleeps with that signal unreported.
    #[kani::proof]
    #[kani::stub(core::fmt::write, crate::common::no_fmt_write)]
    #[kani::unwind(6)]
    pub fn c09_nest_delivery_inside_forever() {
        let (mut d, h) = mk_delivery(false);
        arm_with(&mut d, &h, true);
        unsafe { X::by_count = true };
        let mut iter = SignalIterator::new(d);
        fn poll_once(iter: &mut SignalIterator<SignalDelivery<UnixStream, SignalOnly>, SignalOnly>) {
            match iter.poll_signal(&mut has_signals_blocking) {
                PollResult::Signal(sig) => note(sig),
                PollResult::Pending => {}
                PollResult::Closed => assert!(false, "C11: the iterator reported closed although nobody closed it"),
                PollResult::Err(e) => core::mem::forget(e),
            }
        }
        full_delivery();
        unsafe { vshim::HOOKS.interrupt = interrupt_with_delivery };
        vshim::set_mode_nest(1, 1, 0);
        poll_once(&mut iter);
        let first = unsafe { I::yielded_sa };
        let nested_in_first = vshim::interrupts_taken();
        // batch exhausted: back to waiting (sleeps, path cut, unless a delivery arrives;
        // if the one nested delivery has landed and been reported already, the
        // consumer would legitimately sleep: stop there)
        if nested_in_first == 0 || unreported() {
            poll_once(&mut iter);
        }
        vshim::set_mode_seq();
        if unreported() {
            poll_once(&mut iter);
        }
        assert!(!unreported(), "C09: a delivered signal was not obtained by a consumer that keeps polling");
        assert!(unsafe { I::yielded_other } == 0, "C10: the iterator yielded a signal it was not asked to watch");
        assert!(unsafe { I::yielded_sa } <= unsafe { X::deliveries_done }, "C10: the iterator has yielded a signal more often than it was delivered");
        kani::cover!(first == 1 && nested_in_first == 0 && vshim::interrupts_taken() == 1, "the delivery landed inside the poll that found its batch exhausted");
        kani::cover!(nested_in_first == 1, "the delivery landed inside the poll that handed out the earlier signal");
        core::mem::forget((iter, h));
    }

    /// C11: close() lands anywhere inside one poll_signal() call of an async adapter.
    #[kani::proof]
    #[kani::stub(core::fmt::write, crate::common::no_fmt_write)]
    #[kani::unwind(6)]
    pub fn c11_nest_close_inside_poll() {
        let (d, h) = mk_delivery(true);
        let mut iter = SignalIterator::new(d);
        unsafe {
            X::closed_var = X::base_var + be::MAXSIG;
            kani::cover!(be::closed_var(&h) == X::closed_var, "the shim word of the closed flag was located");
            X::handle = &h;
            vshim::HOOKS.block = block_hook_nest;
            vshim::HOOKS.interrupt = interrupt_with_close;
        }
        let before: bool = kani::any();
        if before {
            h.close();
            unsafe { X::closed_done = true };
        }
        vshim::set_mode_nest(1, 1, 0);
        let c0 = unsafe { I::consulted };
        let res = iter.poll_signal(&mut ready_cb);
        vshim::set_mode_seq();
        let consulted = unsafe { I::consulted } - c0;
        let mut pending = false;
        let mut closed = false;
        match res {
            PollResult::Pending => {
                pending = true;
                assert!(consulted >= 1 && !unsafe { I::last_answer }, "C11: poll reported 'pending' without having consulted the readiness callback in that call (no wake-up is armed)");
            }
            PollResult::Closed => closed = true,
            PollResult::Signal(_) => assert!(false, "C10: a signal was reported although none was delivered"),
            PollResult::Err(e) => core::mem::forget(e),
        }
        if unsafe { X::closed_done } {
            assert!(h.is_closed(), "C11: is_closed() is false after close() returned");
            // a later poll must say closed, not pending
            let res2 = iter.poll_signal(&mut ready_cb);
            let ok2 = match res2 {
                PollResult::Closed => true,
                PollResult::Err(e) => {
                    core::mem::forget(e);
                    true
                }
                _ => false,
            };
            assert!(ok2, "C11: a poll that starts after close() returned does not report closed");
        }
        assert!(!before || closed, "C11: a poll that starts after close() returned does not report closed");
        kani::cover!(closed && !before, "close landed inside the poll and it reported closed");
        kani::cover!(pending && consulted == 1 && !unsafe { X::closed_done }, "no close: callback consulted, pending");
        core::mem::forget((iter, h));
    }

    /// C11: close() lands anywhere inside a blocking wait: the consumer is not left asleep.
    #[kani::proof]
    #[kani::stub(core::fmt::write, crate::common::no_fmt_write)]
    #[kani::unwind(6)]
    pub fn c11_nest_close_inside_wait() {
        let (mut d, h) = mk_delivery(false);
        unsafe {
            X::closed_var = X::base_var + be::MAXSIG;
            kani::cover!(be::closed_var(&h) == X::closed_var, "the shim word of the closed flag was located");
            X::handle = &h;
            vshim::HOOKS.block = block_hook_nest;
            vshim::HOOKS.interrupt = interrupt_with_close;
        }
        vshim::set_mode_nest(1, 1, 0);
        wait_and_drain(&mut d);
        vshim::set_mode_seq();
        if unsafe { X::closed_done } {
            wait_and_drain(&mut d);
            wait_and_drain(&mut d);
        }
        // ("a consumer blocks after close() returned" is asserted where it would block)
        assert!(unsafe { I::yielded_sa + I::yielded_other } == 0, "C10: a signal was reported although none was delivered");
        kani::cover!(unsafe { X::closed_done } && unsafe { I::consumer_blocked } == 0, "close arrived before the consumer slept; all waits returned");

        core::mem::forget((d, h));
    }

    /// C11: the consumer of another thread runs (it is woken by a byte in the pipe,
    /// iterates, possibly goes back to sleep) in the middle of close(): when
    /// close() returns it must not be asleep without a wake-up on its way, and
    /// its next waits return.
    #[kani::proof]
    #[kani::stub(core::fmt::write, crate::common::no_fmt_write)]
    #[kani::unwind(6)]
    pub fn c11_nest_consumer_inside_close() {
        let (mut d, h) = mk_delivery(false);
        unsafe {
            X::closed_var = X::base_var + be::MAXSIG;
            kani::cover!(be::closed_var(&h) == X::closed_var, "the shim word of the closed flag was located");
            X::handle = &h;
            X::delivery = &mut d;
            vshim::HOOKS.block = block_hook_nest;
            vshim::HOOKS.interrupt = interrupt_close_with_consumer;
            X::in_close = true;
        }
        vshim::set_mode_nest(1, 1, 0);
        h.close();
        vshim::set_mode_seq();
        unsafe {
            X::in_close = false;
            X::closed_done = true;
            assert!(!(X::asleep && K::fds[PAIR_WRITE as usize].write_calls == X::writes_at_sleep), "C11: close() returned while a consumer sleeps on the self-pipe and no wake-up byte was written after it fell asleep");
        }
        assert!(h.is_closed(), "C11: is_closed() is false after close() returned");
        wait_and_drain(&mut d);
        wait_and_drain(&mut d);
        assert!(unsafe { I::yielded_sa + I::yielded_other } == 0, "C10: a signal was reported although none was delivered");
        kani::cover!(unsafe { X::asleep }, "the consumer went to sleep while close() was running and was woken by it");
        kani::cover!(unsafe { X::nested_consumer_runs } >= 1 && !unsafe { X::asleep }, "the consumer ran inside close() and saw the closed flag");
        core::mem::forget((d, h));
    }


    /// C11 through the real front-end object (`SignalsInfo::wait` / `forever` /
    /// `is_closed`), sequentially: after close() returned every wait returns, also
    /// once the wake-up byte of close() has been consumed.
    #[kani::proof]
    #[kani::stub(core::fmt::write, crate::common::no_fmt_write)]
    #[kani::unwind(6)]
    pub fn c11_seq_frontend_wait_after_close() {
        reg::init_globals();
        let s = ok(Signals::new(&[SA]));
        assert!(s.is_some(), "C11: constructing Signals failed");
        let mut s = s.unwrap();
        let h = s.handle();
        unsafe { vshim::HOOKS.block = block_hook_nest };
        h.close();
        unsafe { X::closed_done = true };
        assert!(h.is_closed() && s.is_closed(), "C11: is_closed() is false after close() returned");
        let mut n = 0;
        for sig in s.wait() {
            note(sig);
            n += 1;
        }
        for sig in s.wait() {
            note(sig);
            n += 1;
        }
        for sig in s.pending() {
            note(sig);
            n += 1;
        }
        for sig in s.wait() {
            note(sig);
            n += 1;
        }
        assert!(n == 0, "C10: a signal was reported although none was delivered");
        kani::cover!(unsafe { I::consumer_blocked } == 0, "three waits and a pending() after close() returned without sleeping");
        core::mem::forget((s, h));
    }

    /// C10 (sequential): a burst of deliveries, batches: never more yields than
    /// deliveries, a burst collapses to one report, a reported delivery is not
    /// reported again, a later delivery is.
    #[kani::proof]
    #[kani::stub(core::fmt::write, crate::common::no_fmt_write)]
    #[kani::unwind(6)]
    pub fn c10_seq_counts_signal_only() {
        let (mut signals, h) = mk_delivery(false);
        arm(&mut signals, &h);
        full_delivery();
        let burst: bool = kani::any();
        if burst {
            full_delivery();
        }
        for sig in signals.pending() {
            note(sig);
        }
        assert!(unsafe { I::yielded_sa } == 1, "C10: a burst of deliveries before one batch was not reported exactly once");
        for sig in signals.pending() {
            note(sig);
        }
        assert!(unsafe { I::yielded_sa } == 1, "C10: a delivery was reported again by a later batch (flag not cleared)");
        full_delivery();
        for sig in signals.pending() {
            note(sig);
        }
        assert!(unsafe { I::yielded_sa } == 2, "C09: a delivered signal was never reported although the consumer kept draining");
        assert!(unsafe { I::yielded_other } == 0, "C10: the iterator yielded a signal it was not asked to watch");
        assert!(unsafe { I::yielded_sa } <= unsafe { X::deliveries_done }, "C10: the iterator has yielded a signal more often than it was delivered");
        kani::cover!(burst, "a burst was collapsed");
        kani::cover!(!burst, "single delivery");
        core::mem::forget((signals, h));
    }

    // ---- C10, info-carrying exfiltrator ---------------------------------------
    const NREC: usize = 7;
    fn raw_delivery(i: usize, code: i32, pay: u64) {
        unsafe {
            let mut info: siginfo_t = core::mem::zeroed();
            info.si_signo = SA;
            info.si_errno = i as i32; // serial number of the delivery (ghost, travels in the record)
            info.si_code = code;
            *((&mut info as *mut siginfo_t as *mut u8).add(16) as *mut u64) = pay;
            deliver_info(SA, &mut info);
        }
    }
    /// One batch: every record must be a faithful copy of one delivery that has
    /// happened, later than every record obtained before (=> at most one record per
    /// delivery, delivery order).
    fn raw_batch(d: &mut SignalDelivery<UnixStream, WithRawSiginfo>, delivered: usize, next: &mut usize, codes: &[i32; NREC], pays: &[u64; NREC]) -> usize {
        let mut got = 0;
        for rec in d.pending() {
            let serial = rec.si_errno as usize;
            assert!(rec.si_signo == SA, "C10: the iterator yielded a signal it was not asked to watch");
            assert!(serial < delivered, "C10: a record was yielded that no delivery so far produced");
            assert!(serial >= *next, "C10: records of one signal came out of delivery order, or one delivery yielded two records");
            let pay = unsafe { *((&rec as *const siginfo_t as *const u8).add(16) as *const u64) };
            assert!(rec.si_code == codes[serial] && pay == pays[serial], "C10: a yielded record is not a faithful copy of its delivery's information");
            *next = serial + 1;
            got += 1;
        }
        got
    }
    /// 7 deliveries of SA (the per-signal buffer holds 5) with symbolic payloads,
    /// an unwatched signal delivered in between, one batch taken after `early`
    /// deliveries and one at the end.  `early` is concrete per harness: the queue
    /// words stay concrete and only the payloads are symbolic.
    fn raw_records(early: usize) {
        reg::init_globals();
        let other = ok(unsafe { signal_hook_registry::register(SB, || hit(9)) });
        assert!(other.is_some(), "C10: registering failed");
        let p = ok(UnixStream::pair());
        assert!(p.is_some(), "C10: pair failed");
        let (r, w) = p.unwrap();
        // (the list names the signal twice: the second mention must be a no-op)
        let d = ok(SignalDelivery::with_pipe(r, w, WithRawSiginfo::default(), &[SA, SA]));
        assert!(d.is_some(), "C10: constructing the signal delivery failed");
        let mut d = d.unwrap();
        let codes: [i32; NREC] = kani::any();
        let pays: [u64; NREC] = kani::any();
        let mut next = 0;
        let mut got = 0;
        let mut i = 0;
        while i < NREC {
            if i == early {
                deliver(SB); // not watched by this instance
                got += raw_batch(&mut d, i, &mut next, &codes, &pays);
            }
            raw_delivery(i, codes[i], pays[i]);
            i += 1;
        }
        got += raw_batch(&mut d, NREC, &mut next, &codes, &pays);
        assert!(got <= NREC, "C10: the iterator has yielded a signal more often than it was delivered");
        assert!(got >= 1, "C09: deliveries happened, the consumer drained, and nothing was reported");
        assert!(raw_batch(&mut d, NREC, &mut next, &codes, &pays) == 0, "C10: a delivery was reported again by a later batch");
        let want = match early {
            0 => 5, // burst longer than the per-signal buffer
            3 => 7, // nothing dropped
            _ => 6, // the sixth delivery of the first burst found the buffer full
        };
        kani::cover!(got == want, "records obtained: burst of 7 -> 5 kept; 3 then 4 -> all 7; 6 then 1 -> 6");
        kani::cover!(unsafe { L::n } == 1, "the unwatched signal was delivered (to its own action only)");
        core::mem::forget(d);
    }
    // a delivery nested inside the consumer's first load of a batch, buffer full
    static mut RAW_NESTED: bool = false;
    static mut RAW_CODE: i32 = 0;
    static mut RAW_PAY: u64 = 0;
    fn interrupt_with_raw_delivery(kind: u8, _var: usize) {
        unsafe {
            // the boundaries at which the record cell and the queues are mid-update:
            // before each cell access and right after each successful CAS
            if !(kind == vshim::OP_CELL || kind == vshim::OP_AFTER_CAS) || !vshim::is_nth_point() {
                return;
            }
            vshim::consume_interrupt();
            RAW_NESTED = true;
            let mut info: siginfo_t = core::mem::zeroed();
            info.si_signo = SA;
            info.si_errno = 5; // sixth delivery
            info.si_code = RAW_CODE;
            *((&mut info as *mut siginfo_t as *mut u8).add(16) as *mut u64) = RAW_PAY;
            vshim::delivery_enter();
            match X::action {
                Some(a) => a(&info),
                None => {}
            }
            vshim::delivery_exit();
        }
    }
    /// Five deliveries fill the per-signal buffer; a sixth lands at each of the
    /// first 7 cell-access / after-successful-CAS boundaries of the following batch
    /// in turn (the point index is a concrete loop counter, payloads are
    /// symbolic): records stay faithful, in delivery order, at most one per
    /// delivery, none invented.  (Interruptions before the other shim operations
    /// of a recv are covered on the channel level by the C08 harnesses.)
    #[kani::proof]
    #[kani::stub(core::fmt::write, crate::common::no_fmt_write)]
    #[kani::unwind(12)]
    pub fn c10_enum_raw_delivery_inside_batch() {
        const MAXP: usize = 7;
        reg::init_globals();
        let arcs_before = libc::vshim::sync::arcs_created();
        let p = ok(UnixStream::pair());
        assert!(p.is_some(), "C10: pair failed");
        let (r, w) = p.unwrap();
        let d = ok(SignalDelivery::with_pipe(r, w, WithRawSiginfo::default(), &[SA]));
        assert!(d.is_some(), "C10: constructing the signal delivery failed");
        let mut d = d.unwrap();
        let codes: [i32; NREC] = kani::any();
        let pays: [u64; NREC] = kani::any();
        unsafe {
            X::action = libc::vshim::sync::action_by_arc_id(arcs_before);
            assert!(X::action.is_some(), "C10: add_signal did not register an action for the watched signal");
            RAW_CODE = codes[5];
            RAW_PAY = pays[5];
            vshim::HOOKS.interrupt = interrupt_with_raw_delivery;
            vshim::ST::nest_post_points = true;
        }
        let mut found_freed_slot = false;
        let mut found_full = false;
        let mut all_points = false;
        let mut pt = 0;
        while pt <= MAXP {
            unsafe {
                RAW_NESTED = false;
                K::fds[PAIR_WRITE as usize].fill = 0;
            }
            let mut i = 0;
            while i < 5 {
                raw_delivery(i, codes[i], pays[i]);
                i += 1;
            }
            let mut next = 0;
            let mut got = 0;
            vshim::enumerate(if pt == MAXP { usize::MAX - 1 } else { pt }, usize::MAX - 1);
            vshim::set_mode_nest(1, 1, 0);
            for rec in d.pending() {
                let serial = rec.si_errno as usize;
                assert!(rec.si_signo == SA, "C10: the iterator yielded a signal it was not asked to watch");
                assert!(serial < 5 || (serial == 5 && unsafe { RAW_NESTED }), "C10: a record was yielded that no delivery so far produced");
                assert!(serial >= next, "C10: records of one signal came out of delivery order, or one delivery yielded two records");
                let pay = unsafe { *((&rec as *const siginfo_t as *const u8).add(16) as *const u64) };
                assert!(rec.si_code == codes[serial] && pay == pays[serial], "C10: a yielded record is not a faithful copy of its delivery's information");
                next = serial + 1;
                got += 1;
            }
            vshim::set_mode_seq();
            assert!(got >= 5, "C09: a record whose delivery completed before the batch was not obtained");
            if unsafe { RAW_NESTED } && got == 6 {
                found_freed_slot = true;
            }
            if unsafe { RAW_NESTED } && got == 5 {
                found_full = true;
            }
            // whatever the nested delivery left behind comes out in the next batch; then the buffer is empty again
            let mut late = 0;
            for rec in d.pending() {
                assert!(rec.si_errno == 5 && unsafe { RAW_NESTED } && got == 5, "C10: a record came out twice, or a record that no delivery produced");
                late += 1;
            }
            assert!(late <= 1, "C10: one delivery yielded two records");
            if pt == MAXP {
                all_points = vshim::points_seen() > MAXP;
            }
            pt += 1;
        }
        kani::cover!(found_freed_slot, "a nested delivery found the slot the consumer had just freed");
        kani::cover!(found_full, "a nested delivery found the buffer full and was discarded");
        kani::cover!(all_points, "the batch has more such boundaries than the enumeration bound (the first 7 are covered: the first two loads)");
        core::mem::forget(d);
    }

    #[kani::proof]
    #[kani::stub(core::fmt::write, crate::common::no_fmt_write)]
    #[kani::unwind(11)]
    pub fn c10_seq_raw_records_burst7() {
        raw_records(0);
    }
    #[kani::proof]
    #[kani::stub(core::fmt::write, crate::common::no_fmt_write)]
    #[kani::unwind(11)]
    pub fn c10_seq_raw_records_3_4() {
        raw_records(3);
    }
    #[kani::proof]
    #[kani::stub(core::fmt::write, crate::common::no_fmt_write)]
    #[kani::unwind(11)]
    pub fn c10_seq_raw_records_6_1() {
        raw_records(6);
    }
}
