//! Accessors into signal-hook-registry for the verification harnesses.
//! Compiled as a child module of the registry crate under `--cfg sighook_verif`
//! (so it sees the crate's private items); nothing here changes behaviour.
#![allow(dead_code, missing_docs, bare_trait_objects, unused_imports)]

use std::ops::Deref;
use libc::vshim::sync::Arc;

use libc::{c_int, c_void, sigaction, siginfo_t};

use half_lock::{HalfLock, ReadGuard, WriteGuard};
use libc::vshim::maps::{BTreeMap, HashMap};

use super::{Action, ActionId, GlobalData, Prev, SigId, SignalData, Slot};

/// Address of the library's dispatcher, as `Slot::new` hands it to sigaction().
pub fn handler_addr() -> usize {
    super::handler as usize
}

/// One delivery through the real dispatcher.
pub unsafe fn call_handler(sig: c_int, info: *mut siginfo_t, ctx: *mut c_void) {
    super::handler(sig, info, ctx)
}

pub fn ensure_globals() {
    GlobalData::ensure();
}

/// Initialise the globals directly and complete the `Once` with an empty
/// closure, so that harnesses do not pay for (and do not depend on CBMC's view
/// of) std's futex-based `Once::call` state machine: later `ensure()` calls take
/// the `is_completed()` fast path.  Mirrors the eight lines of `ensure()`.
pub fn init_globals() {
    // the registry's own lazy initialisation (the shim `Once` is a flag)
    GlobalData::ensure();
}
/// Enumeration harnesses: start over with an empty registry (the old one is leaked).
pub fn reset_globals() {
    unsafe {
        if let Some(old) = super::GLOBAL_DATA.take() {
            ::std::mem::forget(old);
        }
        super::GLOBAL_INIT.verif_reset();
    }
    GlobalData::ensure();
}

// ---- half-lock façade ------------------------------------------------------
pub struct Lock<T>(HalfLock<T>);
pub struct RGuard<'a, T: 'a>(ReadGuard<'a, T>);
pub struct WGuard<'a, T: 'a>(WriteGuard<'a, T>);

impl<T> Lock<T> {
    pub fn new(v: T) -> Self {
        Lock(HalfLock::new(v))
    }
    pub fn set_generation(&self, g: usize) {
        self.0.verif_set_generation(g)
    }
    pub fn poison(&self) {
        self.0.verif_poison()
    }
    pub fn ids(&self) -> (usize, usize, usize, usize, usize) {
        self.0.verif_ids()
    }
    pub fn read(&self) -> RGuard<T> {
        RGuard(self.0.read())
    }
    pub fn write(&self) -> WGuard<T> {
        WGuard(self.0.write())
    }
}
impl<'a, T> Deref for RGuard<'a, T> {
    type Target = T;
    fn deref(&self) -> &T {
        &*self.0
    }
}
impl<'a, T> Deref for WGuard<'a, T> {
    type Target = T;
    fn deref(&self) -> &T {
        &*self.0
    }
}
impl<'a, T> WGuard<'a, T> {
    pub fn store(&mut self, v: T) {
        self.0.store(v)
    }
}

// ---- registry state inspection ----------------------------------------------
pub const MAXA: usize = libc::vshim::maps::CAP;

#[derive(Copy, Clone)]
pub struct SlotView {
    pub present: bool,
    pub prev_handler: usize,
    pub prev_flags: c_int,
    pub prev_signal: c_int,
    pub n: usize,
    pub ids: [u128; MAXA],
}

/// What the currently published snapshot holds for `sig` (no shim events).
pub fn view(sig: c_int) -> SlotView {
    let g = GlobalData::ensure();
    let q = unsafe { ::std::mem::replace(&mut libc::vshim::ST::quiet, true) };
    let w = g.data.read();
    let mut v = SlotView {
        present: false,
        prev_handler: 0,
        prev_flags: 0,
        prev_signal: 0,
        n: 0,
        ids: [0; MAXA],
    };
    if let Some(slot) = w.signals.get(&sig) {
        v.present = true;
        v.prev_handler = slot.prev.info.sa_sigaction;
        v.prev_flags = slot.prev.info.sa_flags as c_int;
        v.prev_signal = slot.prev.signal;
        for k in slot.actions.keys() {
            if v.n < MAXA {
                v.ids[v.n] = k.0;
            }
            v.n += 1;
        }
    }
    drop(w);
    unsafe { libc::vshim::ST::quiet = q };
    v
}

/// Fallback build (`--cfg sighook_verif_nostate`, used by `check` when the
/// instrumented build does not compile): the two accessors that name the private
/// field `SignalData.next_id` are replaced by a marker panic.  Harnesses that
/// need them are reported inconclusive; the others still run.
#[cfg(sighook_verif_nostate)]
fn unavailable() -> ! {
    panic!("verification hook unavailable: the private layout of SignalData changed")
}
#[cfg(sighook_verif_nostate)]
pub fn next_id() -> u128 {
    unavailable()
}
#[cfg(not(sighook_verif_nostate))]
pub fn next_id() -> u128 {
    let g = GlobalData::ensure();
    let q = unsafe { ::std::mem::replace(&mut libc::vshim::ST::quiet, true) };
    let w = g.data.read();
    let n = w.next_id;
    drop(w);
    unsafe { libc::vshim::ST::quiet = q };
    n
}

pub fn signals_len() -> usize {
    let g = GlobalData::ensure();
    let q = unsafe { ::std::mem::replace(&mut libc::vshim::ST::quiet, true) };
    let w = g.data.read();
    let n = w.signals.len();
    drop(w);
    unsafe { libc::vshim::ST::quiet = q };
    n
}

/// (signal, handler word, flags) of the race fallback, if any.
pub fn fallback() -> Option<(c_int, usize, c_int)> {
    let g = GlobalData::ensure();
    let q = unsafe { ::std::mem::replace(&mut libc::vshim::ST::quiet, true) };
    let w = g.race_fallback.read();
    let r = w
        .as_ref()
        .map(|p| (p.signal, p.info.sa_sigaction, p.info.sa_flags as c_int));
    drop(w);
    unsafe { libc::vshim::ST::quiet = q };
    r
}

pub fn sigid_parts(id: SigId) -> (c_int, u128) {
    (id.signal, id.action.0)
}
pub fn make_sigid(signal: c_int, action: u128) -> SigId {
    SigId {
        signal,
        action: ActionId(action),
    }
}

/// Shim word ids of the two half-locks: [data ptr, generation, lock0, lock1, mutex] each.
/// Shim word ids of the four reader counters (two per half-lock).
pub fn lock_counter_vars() -> [usize; 4] {
    let g = GlobalData::ensure();
    let a = g.data.verif_ids();
    let b = g.race_fallback.verif_ids();
    [a.2, a.3, b.2, b.3]
}
/// Read sections currently open on the registry's data lock (C01: an action must
/// only ever run inside the section that obtained it).
pub fn data_readers() -> usize {
    GlobalData::ensure().data.verif_readers()
}
/// Is the writer mutex of the data lock held right now?
pub fn data_mutex_locked() -> bool {
    GlobalData::ensure().data.verif_mutex_locked()
}
pub fn fallback_readers() -> usize {
    GlobalData::ensure().race_fallback.verif_readers()
}
/// Poison both registry writer mutexes (an earlier mutator panicked while holding them).
pub fn poison_registry_locks() {
    let g = GlobalData::ensure();
    g.data.verif_poison();
    g.race_fallback.verif_poison();
}
pub fn data_mutex_var() -> usize {
    GlobalData::ensure().data.verif_mutex_id()
}
pub fn fallback_mutex_var() -> usize {
    GlobalData::ensure().race_fallback.verif_mutex_id()
}

/// Directly publish a registry state (symbolic pre-states, C02/C05).
/// Build it with `StateBuilder`: add slots, add actions to the last slot, publish.
pub struct StateBuilder {
    signals: HashMap<c_int, Slot>,
}
impl StateBuilder {
    pub fn new() -> Self {
        StateBuilder {
            signals: HashMap::new(),
        }
    }
    pub fn slot(&mut self, signal: c_int, prev_handler: usize, prev_flags: c_int) {
        let mut info: sigaction = unsafe { ::std::mem::zeroed() };
        info.sa_sigaction = prev_handler;
        info.sa_flags = prev_flags as _;
        self.signals.insert(
            signal,
            Slot {
                prev: Prev { signal, info },
                actions: BTreeMap::new(),
            },
        );
    }
    pub fn action(&mut self, signal: c_int, id: u128, act: Arc<Action>) {
        if let Some(slot) = self.signals.get_mut(&signal) {
            let old = slot.actions.insert(ActionId(id), act);
            ::std::mem::forget(old);
        }
    }
    #[cfg(sighook_verif_nostate)]
    pub fn publish(self, _next_id: u128) {
        unavailable()
    }
    #[cfg(not(sighook_verif_nostate))]
    pub fn publish(self, next_id: u128) {
        let g = GlobalData::ensure();
        let q = unsafe { ::std::mem::replace(&mut libc::vshim::ST::quiet, true) };
        g.data.write().store(SignalData {
            signals: self.signals,
            next_id,
        });
        unsafe { libc::vshim::ST::quiet = q };
    }
}

pub fn publish_empty_fallback() {
    let g = GlobalData::ensure();
    g.race_fallback.write().store(None);
}

pub fn clone_current() -> usize {
    let g = GlobalData::ensure();
    let lock = g.data.write();
    let c = SignalData::clone(&lock);
    let n = c.signals.len();
    drop(c);
    n
}
pub fn clone_current_read() -> usize {
    let g = GlobalData::ensure();
    let lock = g.data.read();
    let c = SignalData::clone(&lock);
    let n = c.signals.len();
    drop(c);
    n
}

/// A clone of the `idx`-th action currently registered for `sig` (no shim events).
pub fn action_of(sig: c_int, idx: usize) -> Option<Arc<Action>> {
    let g = GlobalData::ensure();
    let q = unsafe { ::std::mem::replace(&mut libc::vshim::ST::quiet, true) };
    let w = g.data.read();
    let mut out = None;
    if let Some(slot) = w.signals.get(&sig) {
        let mut i = 0;
        for a in slot.actions.values() {
            if i == idx {
                out = Some(Arc::clone(a));
            }
            i += 1;
        }
    }
    drop(w);
    unsafe { libc::vshim::ST::quiet = q };
    out
}

pub fn action_from<F: Fn(&siginfo_t) + Send + Sync + 'static>(f: F) -> Arc<Action> {
    Arc::from(f)
}
