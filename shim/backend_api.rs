//! Child module of src/iterator/backend.rs under `--cfg sighook_verif`: accessors.
#![allow(dead_code, missing_docs)]
use super::*;

/// The mutex guarding the table of registered ids (for poison / lock queries).
pub fn ids_mutex(h: &Handle) -> &libc::vshim::Mutex<Vec<Option<SigId>>> {
    &h.delivery_state.registered_signal_ids
}
/// Shim word id of the `closed` flag.
pub fn closed_var(h: &Handle) -> usize {
    h.delivery_state.closed.id
}
/// Is `signal` recorded as watched by this instance? (no shim events)
pub fn is_watched(h: &Handle, signal: usize) -> bool {
    libc::vshim::quiet(|| {
        let m = &h.delivery_state.registered_signal_ids;
        if m.verif_locked() {
            return false;
        }
        let g = match m.lock() {
            Ok(g) => g,
            Err(e) => e.into_inner(),
        };
        signal < g.len() && g[signal].is_some()
    })
}
pub fn handle_of<R, E: Exfiltrator>(d: &SignalDelivery<R, E>) -> &Handle {
    &d.handle
}
pub const MAXSIG: usize = MAX_SIGNUM;

/// Shim word id of the pending flag of `signal` (SignalOnly storage).
pub fn slot_var<R>(d: &SignalDelivery<R, super::super::exfiltrator::SignalOnly>, signal: usize) -> usize {
    d.pending.slots[signal].id
}
