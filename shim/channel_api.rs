//! Child module of src/low_level/channel.rs under `--cfg sighook_verif`:
//! construct a Channel from raw queue words / inspect one (no behaviour change).
#![allow(dead_code, missing_docs)]
use super::{Channel, SLOTS};
use libc::vshim;
use libc::vshim::atomic::AtomicU16;
use libc::vshim::cell::UnsafeCell;

/// Fallback build (`--cfg sighook_verif_nostate`, used by `check` when the
/// instrumented build does not compile, e.g. because `Channel` gained a field):
/// the constructor from raw words becomes a marker panic; harnesses that start
/// from `Channel::new()` still run.
#[cfg(sighook_verif_nostate)]
pub fn from_raw<T>(_empty: u16, _full: u16, _cells: [Option<T>; SLOTS]) -> Channel<T> {
    panic!("verification hook unavailable: the private layout of Channel changed")
}

/// Build a channel directly from queue words and cell contents.
#[cfg(not(sighook_verif_nostate))]
pub fn from_raw<T>(empty: u16, full: u16, cells: [Option<T>; SLOTS]) -> Channel<T> {
    let [a, b, c, d, e] = cells;
    Channel {
        storage: [
            UnsafeCell::new(a),
            UnsafeCell::new(b),
            UnsafeCell::new(c),
            UnsafeCell::new(d),
            UnsafeCell::new(e),
        ],
        empty: AtomicU16::new(empty),
        full: AtomicU16::new(full),
    }
}

/// (empty word, full word), read without shim events, from the running thread's round.
pub fn words<T>(ch: &Channel<T>) -> (u16, u16) {
    vshim::quiet(|| {
        (
            ch.empty.load(vshim::Ordering::Relaxed),
            ch.full.load(vshim::Ordering::Relaxed),
        )
    })
}

pub fn word_ids<T>(ch: &Channel<T>) -> (usize, usize) {
    (ch.empty.id, ch.full.id)
}

/// Is cell `idx` (1-based, as stored in the queues) occupied? No access event.
pub fn cell_is_some<T>(ch: &Channel<T>, idx: usize) -> bool {
    unsafe { (*ch.storage[idx - 1].peek()).is_some() }
}

pub fn cell_peek<T: Copy>(ch: &Channel<T>, idx: usize) -> Option<T> {
    unsafe { *ch.storage[idx - 1].peek() }
}

/// Run `f` on the content of cell `idx` (1-based), no access event.
pub fn cell_with<T, R, F: FnOnce(&Option<T>) -> R>(ch: &Channel<T>, idx: usize, f: F) -> R {
    unsafe { f(&*ch.storage[idx - 1].peek()) }
}

pub const NSLOTS: usize = SLOTS;
