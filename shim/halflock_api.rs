//! Child module of half_lock.rs under `--cfg sighook_verif`: read-only accessors.
#![allow(dead_code)]
use super::HalfLock;

impl<T> HalfLock<T> {
    /// Shim word ids: (data ptr, generation, lock[0], lock[1], write mutex).
    pub(crate) fn verif_ids(&self) -> (usize, usize, usize, usize, usize) {
        (
            self.data.id,
            self.generation.id,
            self.lock[0].id,
            self.lock[1].id,
            self.write_mutex.id,
        )
    }
    pub(crate) fn verif_mutex_locked(&self) -> bool {
        self.write_mutex.verif_locked()
    }
    pub(crate) fn verif_mutex_id(&self) -> usize {
        self.write_mutex.id
    }
}

impl<T> HalfLock<T> {
    /// Harness: start from an arbitrary generation value.
    pub(crate) fn verif_set_generation(&self, g: usize) {
        self.generation.store(g, super::Ordering::SeqCst);
    }
    /// Harness: the writer mutex was poisoned by an earlier panic.
    pub(crate) fn verif_poison(&self) {
        self.write_mutex.verif_poison();
    }
}

impl<T> HalfLock<T> {
    /// Harness: number of read sections currently open (both generation slots),
    /// read without creating scheduling points.
    pub(crate) fn verif_readers(&self) -> usize {
        libc::vshim::quiet(|| self.lock[0].load(super::Ordering::SeqCst) + self.lock[1].load(super::Ordering::SeqCst))
    }
}
