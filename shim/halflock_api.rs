//! Child module of half_lock.rs under `--cfg sighook_verif`: read-only accessors.
#![allow(dead_code)]
use super::HalfLock;

impl<T> HalfLock<T> {
    /// Shim word ids: (data ptr, generation, lock[0], lock[1], write mutex).
    pub(crate) fn verif_ids(&self) -> (usize, usize, usize, usize, usize) {
        (
            self.data.id,
            self.generation.id,
            self.lock[0].id,
            self.lock[1].id,
            self.write_mutex.id,
        )
    }
    pub(crate) fn verif_mutex_id(&self) -> usize {
        self.write_mutex.id
    }
}
