//! C17 — the real src/low_level/siginfo.rs together with the real C
//! src/low_level/extract.c (linked by `cargo kani -Z c-ffi --c-lib`), for every
//! byte pattern of siginfo_t, against the sigaction(2) contract.
//! Built WITHOUT the sighook_verif guard: no hook is needed here.
#![allow(dead_code, unused_imports)]
use libc::{c_int, siginfo_t};
use signal_hook::low_level::siginfo::{Cause, Chld, Origin, Process, Sent};

// Linux si_code values (sigaction(2) / asm-generic/siginfo.h)
const SI_USER: c_int = 0;
const SI_KERNEL: c_int = 0x80;
const SI_QUEUE: c_int = -1;
const SI_TIMER: c_int = -2;
const SI_MESGQ: c_int = -3;
const SI_ASYNCIO: c_int = -4;
const SI_SIGIO: c_int = -5;
const SI_TKILL: c_int = -6;
const SIGCHLD: c_int = 17;

/// What the kernel guarantees about a siginfo_t, independent of the library:
/// (cause, whether si_pid/si_uid are filled in).
fn reference(signo: c_int, code: c_int) -> (Cause, bool) {
    match code {
        SI_USER => (Cause::Sent(Sent::User), true),
        SI_TKILL => (Cause::Sent(Sent::TKill), true),
        SI_QUEUE => (Cause::Sent(Sent::Queue), true),
        SI_MESGQ => (Cause::Sent(Sent::MesgQ), true),
        SI_KERNEL => (Cause::Kernel, false),
        1 if signo == SIGCHLD => (Cause::Chld(Chld::Exited), true),
        2 if signo == SIGCHLD => (Cause::Chld(Chld::Killed), true),
        3 if signo == SIGCHLD => (Cause::Chld(Chld::Dumped), true),
        4 if signo == SIGCHLD => (Cause::Chld(Chld::Trapped), true),
        5 if signo == SIGCHLD => (Cause::Chld(Chld::Stopped), true),
        6 if signo == SIGCHLD => (Cause::Chld(Chld::Continued), true),
        // timers, async I/O, fault codes of SIGSEGV/SIGBUS/SIGFPE/SIGILL/SIGTRAP/SIGSYS, unknown codes:
        // the union member holding pid/uid is not the valid one
        _ => (Cause::Unknown, false),
    }
}

#[cfg(kani)]
mod proofs {
    use super::*;

    fn any_siginfo() -> (siginfo_t, [u8; 128]) {
        let bytes: [u8; 128] = kani::any();
        let info: siginfo_t = unsafe { core::mem::transmute(bytes) };
        (info, bytes)
    }
    fn i32_at(b: &[u8; 128], off: usize) -> i32 {
        i32::from_ne_bytes([b[off], b[off + 1], b[off + 2], b[off + 3]])
    }

    /// Every byte pattern: reported signal, cause class and process are exactly
    /// what the kernel contract says; no process is reported when the kernel
    /// does not supply one.
    #[kani::proof]
    #[kani::unwind(13)]
    pub fn c17_extract_all_bytes() {
        let (info, b) = any_siginfo();
        let signo = i32_at(&b, 0);
        let code = i32_at(&b, 8);
        // ABI offsets of the kill()/SIGCHLD union members on x86-64 Linux,
        // computed independently of the si_pid/si_uid macros
        let pid = i32_at(&b, 16);
        let uid = i32_at(&b, 20) as u32;
        let o = unsafe { Origin::extract(&info) };
        let (cause, has_process) = reference(signo, code);
        assert!(o.signal == signo, "C17: reported signal number differs from si_signo");
        assert!(o.cause == cause, "C17: reported cause class differs from how the signal was sent");
        match o.process {
            None => assert!(!has_process, "C17: the kernel supplied a sender process but none was reported"),
            Some(p) => {
                assert!(has_process, "C17: a process was reported although the kernel supplies none for this cause (stale/overlapping memory)");
                assert!(p.pid == pid && p.uid == uid, "C17: reported pid/uid differ from the kernel's si_pid/si_uid");
            }
        }
        kani::cover!(code == SI_KERNEL, "kernel-generated");
        kani::cover!(signo == SIGCHLD && code == 3, "child dumped");
        kani::cover!(signo != SIGCHLD && code == 3, "CLD code on another signal");
        kani::cover!(code == SI_TIMER, "timer");
        kani::cover!(o.process.is_some() && pid != 0, "process reported");
    }
}
